(* ExchangeProofs.v — facts about the exchange skeleton of Model/Exchange.v, for EVERY decision
   function: the state invariant, what a successful tick does (tick_spec), and id conservation.
   Statements are those of Proofs/ExchangeTargets.txt. *)
From Coq Require Import ZArith NArith List Bool String Lia Permutation Sorted.
From Alator Require Import Model.Exchange Proofs.ListAux.
Import ListNotations.

(* ------------------------------------------------------------------------------------------ *)
(* the sort oracle: a valid index list really is a permutation                                 *)
(* ------------------------------------------------------------------------------------------ *)
Definition otl {A} (o : option A) : list A := match o with Some a => [a] | None => [] end.

Lemma pick_flat_map {A} (l : list A) (p : list nat) (r : list A) :
  pick l p = Some r -> r = flat_map (fun i => otl (nth_opt l i)) p.
Proof.
  revert r. induction p as [|i p IH]; intros r H; cbn [pick] in H.
  - inversion H. reflexivity.
  - destruct (nth_opt l i) as [a|] eqn:Hn; [|discriminate].
    destruct (pick l p) as [r'|]; [|discriminate].
    inversion H; subst. cbn [flat_map]. rewrite Hn. cbn [otl app]. f_equal.
    apply IH. reflexivity.
Qed.

Lemma flat_map_nth_opt_seq {A} (l : list A) :
  flat_map (fun i => otl (nth_opt l i)) (seq 0 (List.length l)) = l.
Proof.
  induction l as [|a l IH]; [reflexivity|].
  cbn [List.length seq flat_map nth_opt otl app]. f_equal.
  rewrite <- (seq_shift (List.length l) 0), flat_map_map. cbn [nth_opt]. exact IH.
Qed.

Lemma mem_nat_false (n : nat) (l : list nat) : mem_nat n l = false -> ~ In n l.
Proof.
  induction l as [|m l IH]; intros H Hin; [exact Hin|].
  cbn [mem_nat] in H. apply orb_false_iff in H. destruct H as [H1 H2].
  destruct Hin as [Hin|Hin].
  - subst m. rewrite Nat.eqb_refl in H1. discriminate.
  - exact (IH H2 Hin).
Qed.

Lemma nodup_nat_NoDup (l : list nat) : nodup_nat l = true -> NoDup l.
Proof.
  induction l as [|n l IH]; intros H; [constructor|].
  cbn [nodup_nat] in H. apply andb_true_iff in H. destruct H as [H1 H2].
  constructor; [|apply IH; exact H2].
  apply mem_nat_false. destruct (mem_nat n l); [discriminate|reflexivity].
Qed.

Lemma valid_perm_Permutation (n : nat) (p : list nat) :
  valid_perm n p = true -> Permutation p (seq 0 n).
Proof.
  unfold valid_perm. intros H.
  apply andb_true_iff in H. destruct H as [H H3].
  apply andb_true_iff in H. destruct H as [H1 H2].
  apply Nat.eqb_eq in H1.
  apply NoDup_Permutation_bis.
  - apply nodup_nat_NoDup. exact H3.
  - rewrite seq_length. lia.
  - intros i Hi. rewrite forallb_forall in H2. specialize (H2 i Hi).
    apply Nat.ltb_lt in H2. apply in_seq. lia.
Qed.

Lemma apply_perm_Permutation {A} (l : list A) (p : list nat) (r : list A) :
  apply_perm l p = Some r -> Permutation r l.
Proof.
  unfold apply_perm. destruct (valid_perm (List.length l) p) eqn:Hv; [|discriminate].
  intros H. apply pick_flat_map in H. subst r.
  rewrite (valid_perm_Permutation _ _ Hv). rewrite flat_map_nth_opt_seq. reflexivity.
Qed.

Lemma SSorted_map_seq (n : N) (a m : nat) :
  StronglySorted N.lt (map (fun k => (n + N.of_nat k)%N) (seq a m)).
Proof.
  revert a. induction m as [|m IH]; intros a; [constructor|].
  cbn [seq map]. constructor; [apply IH|].
  apply Forall_forall. intros y Hy. apply in_map_iff in Hy. destruct Hy as [k [Hk1 Hk2]].
  apply in_seq in Hk2. lia.
Qed.

(* ------------------------------------------------------------------------------------------ *)
Section SkelProofs.
Context {Ord Qt T : Type}.
Context (asset_of : Ord -> N) (sym_of : Ord -> string) (is_sell : Ord -> bool).
Context (decide : entry Ord -> Qt -> action Ord T).

Definition Inv (s : exch Ord T) : Prop :=
  StronglySorted N.lt (ids (book s)) /\ Forall (fun i => (i < next_id s)%N) (ids (book s)).

(* ---- numbering --------------------------------------------------------------------------- *)
Lemma number_app n (l1 l2 : list Ord) :
  number n (l1 ++ l2) = number n l1 ++ number (n + N.of_nat (List.length l1)) l2.
Proof.
  revert n. induction l1 as [|o l1 IH]; intros n.
  - cbn [app number List.length]. f_equal. lia.
  - cbn [app number List.length]. rewrite IH.
    replace (N.succ n + N.of_nat (List.length l1))%N
      with (n + N.of_nat (S (List.length l1)))%N by lia.
    reflexivity.
Qed.

Lemma number_length n (l : list Ord) : List.length (number n l) = List.length l.
Proof.
  revert n. induction l as [|o l IH]; intros n; [reflexivity|].
  cbn [number List.length]. rewrite IH. reflexivity.
Qed.

Lemma number_fst n (l : list Ord) :
  map fst (number n l) = map (fun k => (n + N.of_nat k)%N) (seq 0 (List.length l)).
Proof.
  revert n. induction l as [|o l IH]; intros n; [reflexivity|].
  cbn [number map fst List.length seq]. f_equal; [lia|].
  rewrite IH. rewrite <- (seq_shift (List.length l) 0), map_map.
  apply map_ext. intros k. lia.
Qed.

Lemma number_snd n (l : list Ord) : map snd (number n l) = l.
Proof.
  revert n. induction l as [|o l IH]; intros n; [reflexivity|].
  cbn [number map snd]. rewrite IH. reflexivity.
Qed.

Lemma number_In n (l : list Ord) i o :
  In (i, o) (number n l) -> (n <= i < n + N.of_nat (List.length l))%N.
Proof.
  revert n. induction l as [|o0 l IH]; intros n H; [destruct H|].
  cbn [number] in H. cbn [List.length]. destruct H as [H|H].
  - inversion H; subst. lia.
  - apply IH in H. lia.
Qed.

Lemma number_In_snd n (l : list Ord) i o : In (i, o) (number n l) -> In o l.
Proof.
  intros H. rewrite <- (number_snd n l). apply (in_map snd) in H. exact H.
Qed.

(* C17: within one tick's batch every sell-side order has a smaller id than every buy-side one *)
Lemma sells_first_ids n l i o j o' :
  sells_first is_sell l = true ->
  In (i, o) (number n l) -> In (j, o') (number n l) ->
  is_sell o = true -> is_sell o' = false -> (i < j)%N.
Proof.
  revert n. induction l as [|o0 r IH]; intros n Hsf Hi Hj Ho Ho'; [destruct Hi|].
  cbn [sells_first] in Hsf. apply andb_true_iff in Hsf. destruct Hsf as [Hhd Hsf].
  cbn [number] in Hi, Hj. destruct Hi as [Hi|Hi]; destruct Hj as [Hj|Hj].
  - inversion Hi; inversion Hj; subst. congruence.
  - inversion Hi; subst. apply number_In in Hj. lia.
  - inversion Hj; subst. rewrite Ho' in Hhd. cbn [orb] in Hhd.
    rewrite forallb_forall in Hhd. apply number_In_snd in Hi.
    specialize (Hhd o Hi). rewrite Ho in Hhd. discriminate.
  - eapply IH; eassumption.
Qed.

(* ---- the matching loop ------------------------------------------------------------------- *)
Definition keeps (qs : quotes Qt) (e : entry Ord) : bool :=
  match action_of sym_of decide qs e with ARest | AMark => true | _ => false end.
Definition after_walk (qs : quotes Qt) (e : entry Ord) : entry Ord :=
  match action_of sym_of decide qs e with AMark => mark e | _ => e end.
Definition fill_of (qs : quotes Qt) (e : entry Ord) : list (N * T) :=
  match action_of sym_of decide qs e with AFill t => [(e_id e, t)] | _ => [] end.
Definition child_of (qs : quotes Qt) (e : entry Ord) : list Ord :=
  match action_of sym_of decide qs e with ATrigger c => [c] | _ => [] end.
Definition no_panic (qs : quotes Qt) (b : list (entry Ord)) : Prop :=
  Forall (fun e => action_of sym_of decide qs e <> APanic) b.

Lemma walk_spec qs b :
  walk asset_of sym_of decide qs b =
  if forallb (fun e => match action_of sym_of decide qs e with APanic => false | _ => true end) b
  then Some (map (after_walk qs) b,
             flat_map (fill_of qs) b,
             map (key_of asset_of) (filter (fun e => negb (keeps qs e)) b),
             flat_map (child_of qs) b)
  else None.
Proof.
  induction b as [|e b IH]; [reflexivity|].
  cbn [walk forallb map flat_map filter]. rewrite IH.
  unfold after_walk, fill_of, child_of, keeps.
  destruct (action_of sym_of decide qs e) eqn:Ha;
    cbn [andb negb map app]; destruct (forallb _ b); reflexivity.
Qed.

Lemma after_walk_id qs e : e_id (after_walk qs e) = e_id e.
Proof. unfold after_walk. destruct (action_of sym_of decide qs e); reflexivity. Qed.

Lemma after_walk_ord qs e : e_ord (after_walk qs e) = e_ord e.
Proof. unfold after_walk. destruct (action_of sym_of decide qs e); reflexivity. Qed.

Lemma ids_after_walk qs (b : list (entry Ord)) : ids (map (after_walk qs) b) = ids b.
Proof.
  unfold ids. rewrite map_map. apply map_ext. intros e. apply after_walk_id.
Qed.

Lemma ids_app (b1 b2 : list (entry Ord)) : ids (b1 ++ b2) = ids b1 ++ ids b2.
Proof. unfold ids. apply map_app. Qed.

Lemma ids_fresh (l : list (N * Ord)) : ids (map fresh_entry l) = map fst l.
Proof. unfold ids. rewrite map_map. apply map_ext. intros p. reflexivity. Qed.

(* ---- delete_first ------------------------------------------------------------------------ *)
Lemma delete_first_filter k b :
  NoDup (ids b) ->
  delete_first asset_of k b = filter (fun e => negb (matches asset_of k e)) b.
Proof.
  induction b as [|e b IH]; intros Hnd; [reflexivity|].
  unfold ids in Hnd. cbn [map] in Hnd. inversion Hnd as [|? ? Hnin Hnd']; subst.
  cbn [delete_first filter]. destruct (matches asset_of k e) eqn:Hm; cbn [negb].
  - symmetry. apply filter_all_true. intros x Hx.
    destruct (matches asset_of k x) eqn:Hmx; [|reflexivity].
    exfalso. apply Hnin. unfold matches in Hm, Hmx.
    apply andb_true_iff in Hm. apply andb_true_iff in Hmx.
    destruct Hm as [Hm _]. destruct Hmx as [Hmx _].
    apply N.eqb_eq in Hm. apply N.eqb_eq in Hmx.
    rewrite <- Hm, Hmx. apply in_map. exact Hx.
  - f_equal. apply IH. exact Hnd'.
Qed.

Lemma delete_first_length k b :
  (List.length (delete_first asset_of k b) = List.length b \/
   S (List.length (delete_first asset_of k b)) = List.length b).
Proof.
  induction b as [|e b IH]; [left; reflexivity|].
  cbn [delete_first]. destruct (matches asset_of k e); [right; reflexivity|].
  cbn [List.length]. destruct IH as [IH|IH]; [left|right]; rewrite IH; reflexivity.
Qed.

Lemma delete_first_nomatch k b :
  forallb (fun e => negb (matches asset_of k e)) b = true -> delete_first asset_of k b = b.
Proof.
  induction b as [|e b IH]; intros H; [reflexivity|].
  cbn [forallb] in H. apply andb_true_iff in H. destruct H as [H1 H2].
  apply negb_true_iff in H1. cbn [delete_first]. rewrite H1, (IH H2). reflexivity.
Qed.

Lemma delete_first_other k b e :
  In e b -> matches asset_of k e = false -> In e (delete_first asset_of k b).
Proof.
  induction b as [|a b IH]; intros Hin Hm; [destruct Hin|].
  cbn [delete_first]. destruct Hin as [Hin|Hin].
  - subst a. rewrite Hm. left. reflexivity.
  - destruct (matches asset_of k a); [exact Hin|]. right. apply IH; assumption.
Qed.

Lemma fold_delete_filter ks c :
  NoDup (ids c) ->
  fold_left (fun b k => delete_first asset_of k b) ks c =
  filter (fun e => negb (existsb (fun k => matches asset_of k e) ks)) c.
Proof.
  revert c. induction ks as [|k ks IH]; intros c Hnd.
  - cbn [fold_left existsb negb]. symmetry. apply filter_all_true. intros; reflexivity.
  - cbn [fold_left]. rewrite (delete_first_filter k c Hnd).
    rewrite IH by (apply NoDup_map_filter; exact Hnd).
    rewrite filter_filter. apply filter_ext. intros e. cbn [existsb].
    rewrite negb_orb. reflexivity.
Qed.

Lemma walk_delete_spec qs b :
  NoDup (ids b) ->
  fold_left (fun b k => delete_first asset_of k b)
    (map (key_of asset_of) (filter (fun e => negb (keeps qs e)) b)) (map (after_walk qs) b)
  = map (after_walk qs) (filter (keeps qs) b).
Proof.
  intros Hnd. rewrite fold_delete_filter by (rewrite ids_after_walk; exact Hnd).
  rewrite filter_map_comm. f_equal. apply filter_ext_in. intros e He.
  destruct (keeps qs e) eqn:Hk.
  - apply negb_true_iff.
    destruct (existsb (fun k => matches asset_of k (after_walk qs e))
                (map (key_of asset_of) (filter (fun e0 => negb (keeps qs e0)) b))) eqn:Hex;
      [|reflexivity].
    exfalso. apply existsb_exists in Hex. destruct Hex as [k [Hk1 Hk2]].
    apply in_map_iff in Hk1. destruct Hk1 as [x [Hx1 Hx2]]. subst k.
    apply filter_In in Hx2. destruct Hx2 as [Hx2 Hx3].
    unfold matches, key_of in Hk2. cbn [fst snd] in Hk2.
    apply andb_true_iff in Hk2. destruct Hk2 as [Hk2 _]. apply N.eqb_eq in Hk2.
    rewrite after_walk_id in Hk2.
    assert (Hxe : x = e) by (apply (map_inj_in e_id b x e Hnd Hx2 He Hk2)).
    subst x. rewrite Hk in Hx3. discriminate.
  - apply negb_false_iff. apply existsb_exists. exists (key_of asset_of e). split.
    + apply in_map. apply filter_In. split; [exact He|rewrite Hk; reflexivity].
    + unfold matches, key_of. cbn [fst snd].
      rewrite after_walk_id, after_walk_ord, !N.eqb_refl. reflexivity.
Qed.

(* ---- what a successful tick does --------------------------------------------------------- *)
(* raw unfolding, no invariant needed *)
Lemma tick_unfold s qs perm s' fl adm trig :
  tick asset_of sym_of is_sell decide s qs perm = (s', OutTick fl adm trig) ->
  exists sorted,
    apply_perm (buffer s) perm = Some sorted /\
    sells_first is_sell sorted = true /\
    let ins := flat_map (child_of qs) (book s) in
    let kids := number (next_id s) ins in
    fl = flat_map (fill_of qs) (book s) /\
    trig = map fst kids /\
    adm = number (next_id s + N.of_nat (List.length ins)) sorted /\
    s' = mkExch
           ((fold_left (fun b k => delete_first asset_of k b)
               (map (key_of asset_of) (filter (fun e => negb (keeps qs e)) (book s)))
               (map (after_walk qs) (book s))
             ++ map fresh_entry kids) ++ map fresh_entry adm)
           []
           (next_id s + N.of_nat (List.length ins) + N.of_nat (List.length sorted))
           (xlog s ++ map snd fl).
Proof.
  intros Ht. unfold tick in Ht. rewrite walk_spec in Ht.
  destruct (forallb (fun e => match action_of sym_of decide qs e with
                              | APanic => false | _ => true end) (book s)) eqn:Hp;
    [|inversion Ht].
  cbv beta iota zeta in Ht.
  destruct (apply_perm (buffer s) perm) as [sorted|] eqn:Hap; [|inversion Ht].
  destruct (sells_first is_sell sorted) eqn:Hsf; [|inversion Ht].
  inversion Ht; subst; clear Ht.
  exists sorted. split; [reflexivity|]. split; [exact Hsf|].
  cbv zeta. repeat split; reflexivity.
Qed.

(* MASTER LEMMA *)
Lemma tick_spec s qs perm s' fl adm trig :
  Inv s ->
  tick asset_of sym_of is_sell decide s qs perm = (s', OutTick fl adm trig) ->
  exists sorted,
    apply_perm (buffer s) perm = Some sorted /\
    Permutation sorted (buffer s) /\
    sells_first is_sell sorted = true /\
    let kids := number (next_id s) (flat_map (child_of qs) (book s)) in
    fl = flat_map (fill_of qs) (book s) /\
    trig = map fst kids /\
    adm = number (next_id s + N.of_nat (List.length kids)) sorted /\
    book s' = map (after_walk qs) (filter (keeps qs) (book s))
              ++ map fresh_entry kids ++ map fresh_entry adm /\
    buffer s' = [] /\
    next_id s' = (next_id s + N.of_nat (List.length kids) + N.of_nat (List.length sorted))%N /\
    xlog s' = xlog s ++ map snd fl.
Proof.
  intros [Hs Hlt] Ht. apply tick_unfold in Ht.
  destruct Ht as [sorted [Hap [Hsf Hrest]]]. cbv zeta in Hrest.
  destruct Hrest as [Hfl [Htrig [Hadm Hs']]].
  exists sorted. split; [exact Hap|]. split; [eapply apply_perm_Permutation; exact Hap|].
  split; [exact Hsf|]. cbv zeta. rewrite number_length.
  split; [exact Hfl|]. split; [exact Htrig|]. split; [exact Hadm|].
  rewrite Hs'. cbn [book buffer next_id xlog].
  rewrite walk_delete_spec by (apply SSorted_lt_NoDup; exact Hs).
  rewrite <- app_assoc. repeat split; reflexivity.
Qed.

(* a tick either fails and leaves the state alone, or succeeds with an OutTick *)
Lemma tick_cases s qs perm :
  (tick asset_of sym_of is_sell decide s qs perm = (s, OutPanic)) \/
  (tick asset_of sym_of is_sell decide s qs perm = (s, OutBadOracle)) \/
  (exists s' fl adm trig,
      tick asset_of sym_of is_sell decide s qs perm = (s', OutTick fl adm trig)).
Proof.
  unfold tick.
  destruct (walk asset_of sym_of decide qs (book s)) as [[[[bk fl] dl] ins]|];
    [|left; reflexivity].
  cbv beta iota zeta.
  destruct (apply_perm (buffer s) perm) as [sorted|]; [|right; left; reflexivity].
  destruct (sells_first is_sell sorted); [|right; left; reflexivity].
  right. right. do 4 eexists. reflexivity.
Qed.

(* ids of the book after a successful tick: the survivors, then a block of fresh consecutive ids *)
Lemma tick_ids s qs perm s' fl adm trig :
  Inv s ->
  tick asset_of sym_of is_sell decide s qs perm = (s', OutTick fl adm trig) ->
  exists m,
    ids (book s') = ids (filter (keeps qs) (book s))
                    ++ map (fun k => (next_id s + N.of_nat k)%N) (seq 0 m) /\
    next_id s' = (next_id s + N.of_nat m)%N.
Proof.
  intros HI Ht. destruct (tick_spec s qs perm s' fl adm trig HI Ht)
    as [sorted [Hap [Hperm [Hsf Hrest]]]].
  cbv zeta in Hrest. destruct Hrest as [Hfl [Htrig [Hadm [Hbk [Hbuf [Hn Hx]]]]]].
  rewrite number_length in Hadm, Hn.
  exists (List.length (flat_map (child_of qs) (book s) ++ sorted)). split.
  - rewrite Hbk, Hadm. rewrite <- map_app, <- number_app.
    rewrite ids_app, ids_after_walk, ids_fresh, number_fst. reflexivity.
  - rewrite Hn, app_length. lia.
Qed.

Lemma inv_init : Inv exch_init.
Proof. split; constructor. Qed.

Lemma ids_filter_lt (b : list (entry Ord)) (p : entry Ord -> bool) (n : N) :
  Forall (fun i => (i < n)%N) (ids b) -> Forall (fun i => (i < n)%N) (ids (filter p b)).
Proof.
  intros H. rewrite Forall_forall in *. intros i Hi. apply H.
  unfold ids in *. apply in_map_iff in Hi. destruct Hi as [e [He1 He2]].
  apply filter_In in He2. rewrite <- He1. apply in_map. apply He2.
Qed.

Lemma inv_step s o : Inv s -> Inv (fst (step asset_of sym_of is_sell decide s o)).
Proof.
  intros HI. destruct o as [x|k|qs perm]; cbn [step fst].
  - exact HI.
  - destruct HI as [Hs Hlt]. unfold Inv. cbn [book next_id].
    rewrite (delete_first_filter k (book s) (SSorted_lt_NoDup _ Hs)). split.
    + apply SSorted_map_filter. exact Hs.
    + apply ids_filter_lt. exact Hlt.
  - destruct (tick_cases s qs perm) as [Hc|[Hc|[s' [fl [adm [trig Hc]]]]]];
      rewrite Hc; cbn [fst]; try exact HI.
    destruct (tick_ids s qs perm s' fl adm trig HI Hc) as [m [Hids Hn]].
    destruct HI as [Hs Hlt]. unfold Inv. rewrite Hids, Hn. split.
    + apply SSorted_app.
      * apply SSorted_map_filter. exact Hs.
      * apply SSorted_map_seq.
      * intros x y Hx Hy.
        pose proof (ids_filter_lt (book s) (keeps qs) (next_id s) Hlt) as Hlt'.
        rewrite Forall_forall in Hlt'. specialize (Hlt' x Hx).
        apply in_map_iff in Hy. destruct Hy as [j [Hj _]]. lia.
    + apply Forall_app. split.
      * pose proof (ids_filter_lt (book s) (keeps qs) (next_id s) Hlt) as Hlt'.
        rewrite Forall_forall in *. intros i Hi. specialize (Hlt' i Hi). lia.
      * apply Forall_forall. intros y Hy.
        apply in_map_iff in Hy. destruct Hy as [j [Hj Hj2]]. apply in_seq in Hj2. lia.
Qed.

Lemma run_cons_fst s o r :
  fst (run asset_of sym_of is_sell decide s (o :: r)) =
  fst (run asset_of sym_of is_sell decide (fst (step asset_of sym_of is_sell decide s o)) r).
Proof.
  cbn [run]. destruct (step asset_of sym_of is_sell decide s o) as [s1 x]. cbn [fst].
  destruct (run asset_of sym_of is_sell decide s1 r) as [s2 xs]. reflexivity.
Qed.

Lemma run_cons_snd s o r :
  snd (run asset_of sym_of is_sell decide s (o :: r)) =
  snd (step asset_of sym_of is_sell decide s o)
  :: snd (run asset_of sym_of is_sell decide (fst (step asset_of sym_of is_sell decide s o)) r).
Proof.
  cbn [run]. destruct (step asset_of sym_of is_sell decide s o) as [s1 x]. cbn [fst snd].
  destruct (run asset_of sym_of is_sell decide s1 r) as [s2 xs]. reflexivity.
Qed.

Lemma inv_run s ops : Inv s -> Inv (fst (run asset_of sym_of is_sell decide s ops)).
Proof.
  revert s. induction ops as [|o r IH]; intros s HI; [exact HI|].
  rewrite run_cons_fst. apply IH. apply inv_step. exact HI.
Qed.

Lemma next_id_mono s o :
  (next_id s <= next_id (fst (step asset_of sym_of is_sell decide s o)))%N.
Proof.
  destruct o as [x|k|qs perm]; cbn [step fst next_id]; try lia.
  destruct (tick_cases s qs perm) as [Hc|[Hc|[s' [fl [adm [trig Hc]]]]]];
    rewrite Hc; cbn [fst]; try lia.
  apply tick_unfold in Hc. destruct Hc as [sorted [_ [_ Hrest]]]. cbv zeta in Hrest.
  destruct Hrest as [_ [_ [_ Hs']]]. rewrite Hs'. cbn [next_id]. lia.
Qed.

(* ---- consequences used by C01 / C03 / C17 ------------------------------------------------ *)
Lemma fill_ids_sublist_ids qs (b : list (entry Ord)) :
  sublist (map fst (flat_map (fill_of qs) b)) (ids b).
Proof.
  induction b as [|e b IH]; [constructor|].
  cbn [flat_map ids map]. unfold fill_of at 1.
  destruct (action_of sym_of decide qs e); cbn [app map fst];
    try (apply sl_skip; exact IH).
  apply sl_cons. exact IH.
Qed.

Lemma fill_ids_sublist_removed qs (b : list (entry Ord)) :
  sublist (map fst (flat_map (fill_of qs) b))
          (map e_id (filter (fun e => negb (keeps qs e)) b)).
Proof.
  induction b as [|e b IH]; [constructor|].
  cbn [flat_map filter]. unfold fill_of at 1. unfold keeps at 1.
  destruct (action_of sym_of decide qs e); cbn [app map fst negb];
    try exact IH; try (apply sl_skip; exact IH).
  apply sl_cons. exact IH.
Qed.

Lemma tick_fills_old s qs perm s' fl adm trig :
  Inv s ->
  tick asset_of sym_of is_sell decide s qs perm = (s', OutTick fl adm trig) ->
  StronglySorted N.lt (map fst fl) /\
  (forall i t, In (i, t) fl ->
     (i < next_id s)%N /\
     exists e q, In e (book s) /\ e_id e = i /\
                 lookup qs (sym_of (e_ord e)) = Some q /\ decide e q = AFill t) /\
  (forall j o, In (j, o) adm -> (next_id s <= j)%N) /\
  (forall j, In j trig -> (next_id s <= j)%N).
Proof.
  intros [Hs Hlt] Ht. apply tick_unfold in Ht.
  destruct Ht as [sorted [_ [_ Hrest]]]. cbv zeta in Hrest.
  destruct Hrest as [Hfl [Htrig [Hadm _]]].
  split; [|split; [|split]].
  - rewrite Hfl. eapply SSorted_sublist; [apply fill_ids_sublist_ids|exact Hs].
  - intros i t Hin. rewrite Hfl in Hin. apply in_flat_map in Hin.
    destruct Hin as [e [He Hin]]. unfold fill_of, action_of in Hin.
    destruct (lookup qs (sym_of (e_ord e))) as [q|] eqn:Hq; [|destruct Hin].
    destruct (decide e q) as [| |t0| |c|] eqn:Hd; try (destruct Hin; fail).
    destruct Hin as [Hin|[]]. inversion Hin; subst i t0. split.
    + rewrite Forall_forall in Hlt. apply Hlt. unfold ids. apply in_map. exact He.
    + exists e, q. repeat split; assumption.
  - intros j o Hin. rewrite Hadm in Hin. apply number_In in Hin. lia.
  - intros j Hin. rewrite Htrig in Hin. apply in_map_iff in Hin.
    destruct Hin as [[j' o] [Hj Hin]]. cbn [fst] in Hj. subst j'.
    apply number_In in Hin. lia.
Qed.

Lemma tick_fills_indep_buffer s qs perm perm' buf' s1 s2 fl1 adm1 trig1 fl2 adm2 trig2 :
  tick asset_of sym_of is_sell decide s qs perm = (s1, OutTick fl1 adm1 trig1) ->
  tick asset_of sym_of is_sell decide (mkExch (book s) buf' (next_id s) (xlog s)) qs perm'
     = (s2, OutTick fl2 adm2 trig2) ->
  fl1 = fl2 /\ trig1 = trig2.
Proof.
  intros H1 H2. apply tick_unfold in H1. apply tick_unfold in H2.
  destruct H1 as [sorted1 [_ [_ H1]]]. destruct H2 as [sorted2 [_ [_ H2]]].
  cbv zeta in H1, H2. cbn [book next_id] in H2.
  destruct H1 as [Hfl1 [Htr1 _]]. destruct H2 as [Hfl2 [Htr2 _]].
  split; congruence.
Qed.

(* ---- conservation (C03) ------------------------------------------------------------------ *)
Definition removed_by (s : exch Ord T) (o : op Ord Qt) : list N :=
  match o with
  | Insert _ => []
  | Delete k => map e_id (filter (matches asset_of k) (firstn 1 (filter (matches asset_of k) (book s))))
  | Tick qs perm =>
      match tick asset_of sym_of is_sell decide s qs perm with
      | (_, OutTick _ _ _) => map e_id (filter (fun e => negb (keeps qs e)) (book s))
      | _ => []
      end
  end.
Fixpoint run_dead (s : exch Ord T) (ops : list (op Ord Qt)) : list N :=
  match ops with
  | [] => []
  | o :: r => removed_by s o ++ run_dead (fst (step asset_of sym_of is_sell decide s o)) r
  end.
Definition all_ids (n : N) : list N := map N.of_nat (seq 0 (N.to_nat n)).

Lemma all_ids_add (n : N) (k : nat) :
  all_ids (n + N.of_nat k) = all_ids n ++ map (fun j => (n + N.of_nat j)%N) (seq 0 k).
Proof.
  unfold all_ids. rewrite N2Nat.inj_add, Nat2N.id, seq_app, map_app. f_equal.
  cbn [Nat.add]. rewrite (seq_offset (N.to_nat n) k), map_map.
  apply map_ext. intros j. lia.
Qed.

Lemma all_ids_NoDup (n : N) : NoDup (all_ids n).
Proof.
  unfold all_ids. apply FinFun.Injective_map_NoDup; [|apply seq_NoDup].
  intros x y Hxy. apply Nat2N.inj. exact Hxy.
Qed.

Lemma delete_first_perm k (b : list (entry Ord)) :
  Permutation
    (ids (delete_first asset_of k b)
     ++ map e_id (filter (matches asset_of k) (firstn 1 (filter (matches asset_of k) b))))
    (ids b).
Proof.
  induction b as [|e b IH]; [constructor|].
  cbn [delete_first filter]. destruct (matches asset_of k e) eqn:Hm.
  - cbn [firstn filter]. rewrite Hm. cbn [map ids].
    apply Permutation_sym. apply Permutation_cons_append.
  - cbn [ids map app]. constructor. exact IH.
Qed.

Lemma perm_tick_aux (A R I D U B : list N) :
  Permutation (A ++ R) I -> Permutation (I ++ D) U ->
  Permutation ((A ++ B) ++ D ++ R) (U ++ B).
Proof.
  intros H1 H2. rewrite <- H2, <- H1. rewrite <- !app_assoc. apply Permutation_app_head.
  etransitivity; [apply Permutation_app_rot|apply Permutation_app_swap_app].
Qed.

Lemma conservation_step s o dead :
  Inv s -> Permutation (ids (book s) ++ dead) (all_ids (next_id s)) ->
  let s1 := fst (step asset_of sym_of is_sell decide s o) in
  Permutation (ids (book s1) ++ dead ++ removed_by s o) (all_ids (next_id s1)).
Proof.
  intros HI HP. cbv zeta. destruct o as [x|k|qs perm]; cbn [step fst removed_by].
  - cbn [book next_id]. rewrite app_nil_r. exact HP.
  - cbn [book next_id]. rewrite <- HP. rewrite <- (delete_first_perm k (book s)).
    rewrite <- !app_assoc. apply Permutation_app_head, Permutation_app_comm.
  - destruct (tick_cases s qs perm) as [Hc|[Hc|[s' [fl [adm [trig Hc]]]]]];
      rewrite Hc; cbn [fst]; try (rewrite app_nil_r; exact HP).
    destruct (tick_ids s qs perm s' fl adm trig HI Hc) as [m [Hids Hn]].
    rewrite Hids, Hn, all_ids_add.
    eapply perm_tick_aux; [|exact HP].
    unfold ids. rewrite <- map_app. apply Permutation_map. apply filter_partition_perm.
Qed.

Lemma conservation_gen s ops dead :
  Inv s -> Permutation (ids (book s) ++ dead) (all_ids (next_id s)) ->
  let s' := fst (run asset_of sym_of is_sell decide s ops) in
  Permutation (ids (book s') ++ dead ++ run_dead s ops) (all_ids (next_id s')).
Proof.
  cbv zeta. revert s dead. induction ops as [|o r IH]; intros s dead HI HP.
  - cbn [run fst run_dead]. rewrite app_nil_r. exact HP.
  - rewrite run_cons_fst. cbn [run_dead]. rewrite (app_assoc dead).
    apply IH; [apply inv_step; exact HI|].
    apply (conservation_step s o dead HI HP).
Qed.

Lemma conservation ops :
  let s' := fst (run asset_of sym_of is_sell decide exch_init ops) in
  Permutation (ids (book s') ++ run_dead exch_init ops) (all_ids (next_id s')).
Proof.
  cbv zeta.
  pose proof (conservation_gen exch_init ops [] inv_init) as H. cbv zeta in H.
  cbn [app] in H. apply H. cbn. constructor.
Qed.

Definition fill_ids (x : out Ord T) : list N :=
  match x with OutTick fl _ _ => map fst fl | _ => [] end.

Lemma fills_sublist_step s o :
  sublist (fill_ids (snd (step asset_of sym_of is_sell decide s o))) (removed_by s o).
Proof.
  destruct o as [x|k|qs perm]; cbn [step snd fill_ids removed_by]; try apply sublist_nil_l.
  destruct (tick asset_of sym_of is_sell decide s qs perm) as [s1 x] eqn:Ht. cbn [snd].
  destruct x as [|fl adm trig| |]; cbn [fill_ids]; try apply sublist_nil_l.
  apply tick_unfold in Ht. destruct Ht as [sorted [_ [_ Hrest]]]. cbv zeta in Hrest.
  destruct Hrest as [Hfl _]. rewrite Hfl. apply fill_ids_sublist_removed.
Qed.

Lemma fills_sublist_run s ops :
  sublist (flat_map fill_ids (snd (run asset_of sym_of is_sell decide s ops))) (run_dead s ops).
Proof.
  revert s. induction ops as [|o r IH]; intros s; [constructor|].
  rewrite run_cons_snd. cbn [flat_map run_dead]. apply sublist_app; [apply fills_sublist_step|apply IH].
Qed.

Lemma run_dead_NoDup ops :
  NoDup (ids (book (fst (run asset_of sym_of is_sell decide exch_init ops)))
         ++ run_dead exch_init ops).
Proof.
  pose proof (conservation ops) as H. cbv zeta in H.
  eapply Permutation_NoDup; [apply Permutation_sym; exact H|apply all_ids_NoDup].
Qed.

Lemma fills_nodup ops :
  NoDup (flat_map fill_ids (snd (run asset_of sym_of is_sell decide exch_init ops))).
Proof.
  eapply sublist_NoDup; [apply fills_sublist_run|].
  eapply NoDup_app_r. apply run_dead_NoDup.
Qed.

Lemma dead_never_resting ops i :
  In i (run_dead exch_init ops) ->
  ~ In i (ids (book (fst (run asset_of sym_of is_sell decide exch_init ops)))).
Proof.
  intros Hd Hb. eapply NoDup_app_disjoint; [apply run_dead_NoDup|exact Hb|exact Hd].
Qed.

End SkelProofs.
