(* PerfCheck.v — the Perf model at the IEEE instance (libm calls from an observed table) against
   PerformanceCalculator::calculate, every output field bit for bit. *)
From Coq Require Import ZArith NArith List Bool String Floats.
From Alator Require Import Model.Num Model.Quirks Model.Broker Model.Perf Check.Eqb.
Import ListNotations.

Definition P_KIND := 0%N.   Definition P_RETURNS := 1%N.  Definition P_RET := 2%N.
Definition P_CAGR := 3%N.   Definition P_VOL := 4%N.      Definition P_MDD := 5%N.
Definition P_SHARPE := 6%N. Definition P_DDDATES := 7%N.  Definition P_EXTREMES := 8%N.
Definition P_VECTORS := 9%N.  Definition P_FREQ := 10%N.

Record pcase := mkPCase {
  pc_table : libm_table;
  pc_snaps : list (snapshot float);
  pc_obs : option (output float);       (* None = the code panicked *)
  pc_freq : frequency;
  pc_freq_name : string;                (* output.frequency as observed ("" when the code panicked) *)
}.

Definition lor_all (l : list N) : N := fold_left N.lor l 0%N.

Definition pcase_mask (qk : quirks) (c : pcase) : N :=
  let NFp : Num float := FloatNum (pc_table c) in
  match @calculate_freq float NFp qk (pc_freq c) (pc_snaps c), pc_obs c with
  | Panic _, None => 0%N
  | Ok (m, fname), Some o =>
      lor_all [
        bit P_FREQ (String.eqb fname (pc_freq_name c));
        bit P_RETURNS (list_eqb feq (o_returns m) (o_returns o));
        bit P_RET (feq (o_ret m) (o_ret o));
        bit P_CAGR (feq (o_cagr m) (o_cagr o));
        bit P_VOL (feq (o_vol m) (o_vol o));
        bit P_MDD (feq (o_mdd m) (o_mdd o));
        bit P_SHARPE (feq (o_sharpe m) (o_sharpe o));
        bit P_DDDATES (Z.eqb (o_dd_start_date m) (o_dd_start_date o)
                       && Z.eqb (o_dd_end_date m) (o_dd_end_date o));
        bit P_EXTREMES (feq (o_best m) (o_best o) && feq (o_worst m) (o_worst o));
        bit P_VECTORS (list_eqb feq (o_values m) (o_values o)
                       && list_eqb Z.eqb (o_dates m) (o_dates o)
                       && list_eqb feq (o_cash_flows m) (o_cash_flows o)
                       && Z.eqb (o_first_date m) (o_first_date o)
                       && Z.eqb (o_last_date m) (o_last_date o)) ]
  | _, _ => bit P_KIND false
  end.
