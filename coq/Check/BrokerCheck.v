(* BrokerCheck.v — step-wise comparison of the broker model with observed UistBroker transitions. *)
From Coq Require Import ZArith NArith List Bool String Floats.
From Alator Require Import Model.Num Model.Quirks Model.Cost Model.Exchange Model.Uist Model.Broker
  Check.Eqb Check.ExchCheck Check.ServerCheck.
Import ListNotations.

Local Instance FNb : Num float := FloatNum [].

Definition B_KIND := 0%N.     Definition B_EVENT := 1%N.    Definition B_CASH := 2%N.
Definition B_HOLDINGS := 3%N. Definition B_PENDING := 4%N.  Definition B_QUOTES := 5%N.
Definition B_LOG := 6%N.      Definition B_FAILED := 7%N.   Definition B_CALLS := 8%N.
Definition B_DELIVERED := 9%N. Definition B_ORDERS := 10%N. Definition B_GETTERS := 11%N.
Definition B_STATE := 12%N.

Inductive bop :=
| BDeposit (x : float)
| BWithdraw (x : float)
| BLiq (x : float) (ord : list string)
| BSend (o : uorder float)
| BCheck (resp : option (list (trade float) * list (string * quote float))) (ord : list string)
| BDiff (ws : list (string * float)) (ord : list string)
| BGetters (syms : list string) (ord : list string)
| BTradeCosts (qty value : float).

(* per-symbol getters: qty, value, liquidation value, profit, cost basis, holdings-with-pending *)
Definition sym_getters : Type :=
  (option float * option float * option float * option float * option float * option float)%type.

Inductive bobs :=
| OCash (e : cash_event float)
| OOrder (e : order_event float)
| OUnit
| OOrders (os : list (uorder float))
| OGetters (total liq : float) (per : list sym_getters)
| OCosts (x : float) (price : float) (ib isl : float * float)
| OPanic.

Record bstep := mkBStep {
  bs_pre : broker float; bs_op : bop; bs_obs : bobs; bs_post : broker float;
  bs_lazy : bool;
  bs_calls : list (uorder float);        (* insert_order calls made on the client during the step *)
  bs_delivered : list (uorder float);    (* insert_order effects that reached the exchange *)
}.

Definition cash_event_eqb (a b : cash_event float) : bool :=
  match a, b with
  | WithdrawSuccess x, WithdrawSuccess y | WithdrawFailure x, WithdrawFailure y
  | DepositSuccess x, DepositSuccess y | OperationFailure x, OperationFailure y => feq x y
  | _, _ => false
  end.
Definition order_event_eqb (a b : order_event float) : bool :=
  match a, b with
  | OrderSentToExchange x, OrderSentToExchange y | OrderInvalid x, OrderInvalid y => uorder_eqb x y
  | _, _ => false
  end.

(* maps compared as maps *)
Definition smap_eqb {A} (e : A -> A -> bool) (m o : smap A) : bool :=
  Nat.eqb (List.length m) (List.length o)
  && forallb (fun kv => match sget m (fst kv) with Some a => e a (snd kv) | None => false end) o.

Definition broker_mask (m o : broker float) : N :=
  N.lor (bit B_CASH (feq (b_cash m) (b_cash o)))
  (N.lor (bit B_HOLDINGS (smap_eqb feq (b_holdings m) (b_holdings o)))
  (N.lor (bit B_PENDING (smap_eqb feq (b_pending m) (b_pending o)))
  (N.lor (bit B_QUOTES (smap_eqb quote_eqb (b_quotes m) (b_quotes o)))
  (N.lor (bit B_LOG (list_eqb trade_eqb (b_log m) (b_log o)))
         (bit B_FAILED (Bool.eqb (b_failed m) (b_failed o))))))).

Definition opt_feq := opt_eqb feq.
Definition sym_getters_eqb (a b : sym_getters) : bool :=
  let '(a1, a2, a3, a4, a5, a6) := a in let '(b1, b2, b3, b4, b5, b6) := b in
  opt_feq a1 b1 && opt_feq a2 b2 && opt_feq a3 b3 && opt_feq a4 b4 && opt_feq a5 b5 && opt_feq a6 b6.

Definition model_getters (b : broker float) (s : string) : sym_getters :=
  (position_qty b s, position_value b s, position_liquidation_value b s, position_profit b s,
   cost_basis (b_log b) s, holdings_with_pending b s).

Definition fw_mask (qk : quirks) (st : bstep) (fw : list (uorder float)) : N :=
  N.lor (bit B_CALLS (list_eqb uorder_eqb fw (bs_calls st)))
        (bit B_DELIVERED (list_eqb uorder_eqb (delivered qk (bs_lazy st) fw) (bs_delivered st))).

Definition kind_bad : N := bit B_KIND false.

(* the reachable-state invariant of the model (c05_no_zero / c05_holdings_reconcile: keys unique, no zero position is
   ever stored), evaluated on the states the implementation was OBSERVED in: the step-wise comparison starts from the
   implementation's own pre-state, so a state the model can never reach has to be reported here — the theorems that
   speak of "a held symbol" or "a long portfolio" are about reachable states *)
Definition binv_ok (b : broker float) : bool :=
  snodup (skeys (b_holdings b)) && snodup (skeys (b_pending b)) && snodup (skeys (b_quotes b))
  && forallb (fun kv => negb (PrimFloat.eqb (snd kv) 0)) (b_holdings b).

Definition bstep_mask_steps (qk : quirks) (st : bstep) : N :=
  let b := bs_pre st in
  match bs_op st, bs_obs st with
  | BDeposit x, OCash e =>
      let '(b', e') := deposit_cash b x in
      N.lor (bit B_EVENT (cash_event_eqb e' e)) (N.lor (broker_mask b' (bs_post st)) (fw_mask qk st []))
  | BWithdraw x, OCash e =>
      let '(b', e') := withdraw_cash b x in
      N.lor (bit B_EVENT (cash_event_eqb e' e)) (N.lor (broker_mask b' (bs_post st)) (fw_mask qk st []))
  | BLiq x ord, obs =>
      match withdraw_cash_with_liquidation qk b x ord, obs with
      | Ok (b', e', fw), OCash e =>
          N.lor (bit B_EVENT (cash_event_eqb e' e)) (N.lor (broker_mask b' (bs_post st)) (fw_mask qk st fw))
      | Panic _, OPanic => 0%N
      | _, _ => kind_bad
      end
  | BSend o, obs =>
      match send_order qk b o, obs with
      | Ok (b', e', fw), OOrder e =>
          N.lor (bit B_EVENT (order_event_eqb e' e)) (N.lor (broker_mask b' (bs_post st)) (fw_mask qk st fw))
      | Panic _, OPanic => 0%N
      | _, _ => kind_bad
      end
  | BCheck resp ord, obs =>
      match check qk b resp ord, obs with
      | Ok (b', fw), OUnit => N.lor (broker_mask b' (bs_post st)) (fw_mask qk st fw)
      | Panic _, OPanic => 0%N
      | _, _ => kind_bad
      end
  | BDiff ws ord, obs =>
      match diff_orders qk b ws ord, obs with
      | Ok os, OOrders os' =>
          N.lor (bit B_ORDERS (list_eqb uorder_eqb os os')) (N.lor (broker_mask b (bs_post st)) (fw_mask qk st []))
      | Panic _, OPanic => 0%N
      | _, _ => kind_bad
      end
  | BGetters syms ord, OGetters total liq per =>
      if negb (is_order_of ord (b_holdings b)) then kind_bad else
      bit B_GETTERS (feq (total_value b ord) total && feq (liquidation_value b ord) liq
                     && list_eqb sym_getters_eqb (map (model_getters b) syms) per)
  | BTradeCosts qty value, OCosts x price ib isl =>
      let mb := trade_impact_total (b_costs b) value price true in
      let ms := trade_impact_total (b_costs b) value price false in
      bit B_GETTERS (feq (calculate_trade_costs (b_costs b) qty value) x
                     && feq (fst mb) (fst ib) && feq (snd mb) (snd ib)
                     && feq (fst ms) (fst isl) && feq (snd ms) (snd isl))
  | _, _ => kind_bad
  end.

Definition bstep_mask (qk : quirks) (st : bstep) : N :=
  N.lor (bit B_STATE (binv_ok (bs_pre st) &&
                      match bs_obs st with OPanic => true (* the object may be half-updated after unwinding *)
                                      | _ => binv_ok (bs_post st) end))
        (bstep_mask_steps qk st).
