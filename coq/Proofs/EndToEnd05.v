(* EndToEnd05.v — C05's second sentence as ONE theorem about the composition
   broker + eager client + Uist server + Uist exchange (Model/BrokerSys.v) for an ARBITRARY client of the
   broker, at F := R, clean:
   "pending exposure per symbol equals the signed quantity of accepted but not yet filled orders, so it is
    empty again once everything accepted has filled".
   Statements are those of Proofs/EndToEnd05Targets.txt. *)
From Coq Require Import ZArith NArith List Bool String Reals Lra Lia Permutation.
From Flocq Require Import Raux.
From Alator Require Import Model.Num Model.Quirks Model.Cost Model.Exchange Model.Uist Model.Server
  Model.Broker Model.Perf Model.Strategy Model.BrokerSys
  Proofs.ServerProofs Proofs.BrokerLedgerProofs Proofs.BrokerLiqProofs Proofs.UistProofs
  Proofs.ExchangeProofs Proofs.ExchangeCorollaries Proofs.StrategyProofs Proofs.EndToEnd16.
Import ListNotations.

Section EndToEnd05.
Local Existing Instance RNum.
Local Open Scope R_scope.

Notation utick1 := (bt_tick (X:=uexch R) (Row:=quotes (quote R)) (TOut:=utout) ux_tick ([], []) clean false).
Notation sumL := BrokerLedgerProofs.sumR.

(* ---------------- the definitions of the targets ---------------- *)
Definition pend (b : broker R) (s : string) : R :=
  match sget (b_pending b) s with Some p => p | None => 0 end.

Definition signed_outstanding (y : bsys R) (s : string) : R :=
  fold_right (fun o acc => (if String.eqb (uo_symbol o) s then order_effect o else 0) + acc) 0 (outstanding y).

(* every date of the dataset has a row: fetch_quotes after a tick never fails *)
Definition rows_total (d : dataset (quotes (quote R))) : Prop :=
  forall dt, In dt (ds_dates d) -> get_quotes d dt <> None.

Definition bs_inv (y : bsys R) : Prop :=
  SInv (bs_app y) /\
  exists b d k,
    nlookup (backtests (bs_app y)) (bs_id y) = Some b /\
    slookup (datasets (bs_app y)) (bt_dataset b) = Some d /\
    clock_ok d b k /\ rows_total d /\ ExchangeProofs.Inv (bt_exch b) /\
    keys_nodup (b_pending (bs_brkr y)) /\
    (forall s, pend (bs_brkr y) s = signed_outstanding y s) /\
    (forall s, (forall o, In o (outstanding y) -> uo_symbol o <> s) -> sget (b_pending (bs_brkr y)) s = None).

(* ---------------- the pending map against a list of outstanding orders ---------------- *)
(* the three broker clauses of [bs_inv], with the list of outstanding orders made explicit *)
Definition pinv (p : smap R) (os : list (uorder R)) : Prop :=
  keys_nodup p /\
  (forall s, hget p s = sumL (oeff s) os) /\
  (forall s, (forall o, In o os -> uo_symbol o <> s) -> sget p s = None).

Lemma pend_hget (b : broker R) s : pend b s = hget (b_pending b) s.
Proof. reflexivity. Qed.

Lemma so_sum (y : bsys R) s : signed_outstanding y s = sumL (oeff s) (outstanding y).
Proof. reflexivity. Qed.

Lemma outstanding_eq (y : bsys R) b :
  nlookup (backtests (bs_app y)) (bs_id y) = Some b ->
  outstanding y = map (@e_ord (uorder R)) (book (bt_exch b)) ++ buffer (bt_exch b).
Proof. intros H. unfold outstanding. rewrite H. reflexivity. Qed.

Lemma sumL_perm {A} (f : A -> R) l1 l2 : Permutation l1 l2 -> sumL f l1 = sumL f l2.
Proof. exact (BrokerLiqProofs.sumR_perm f l1 l2). Qed.

(* no order for s: the signed quantity for s is 0 *)
Lemma sumL_none s (os : list (uorder R)) :
  (forall o, In o os -> uo_symbol o <> s) -> sumL (oeff s) os = 0.
Proof.
  induction os as [|o os IH]; intros H; [reflexivity|].
  rewrite BrokerLedgerProofs.sumR_cons, IH by (intros o' Hin; apply H; right; exact Hin).
  unfold oeff. destruct (String.eqb (uo_symbol o) s) eqn:E; [|lra].
  apply String.eqb_eq in E. exfalso. exact (H o (or_introl eq_refl) E).
Qed.

(* ---------------- string maps: the update idiom, by lookup ---------------- *)
Lemma sget_supd (m : smap R) k v s :
  keys_nodup m ->
  sget (supd m k v) s = if String.eqb k s then (if Req_bool v 0 then None else Some v) else sget m s.
Proof.
  intros Hnd. unfold supd. destruct (String.eqb k s) eqn:E.
  - apply String.eqb_eq in E. subst s. destruct (Req_bool v 0).
    + apply sget_sremove_same. exact Hnd.
    + apply sget_sset_same.
  - apply String.eqb_neq in E. assert (Hne : s <> k) by congruence.
    destruct (Req_bool v 0); [now apply sget_sremove_other | now apply sget_sset_other].
Qed.

(* an entry, if present, is not zero *)
Definition nz_at (m : smap R) (s : string) : Prop := sget m s <> Some 0.

Lemma nz_at_none (m : smap R) s : hget m s = 0 -> nz_at m s -> sget m s = None.
Proof.
  unfold hget, nz_at. destruct (sget m s) as [v|]; intros Hv Hn; [|reflexivity].
  subst v. exfalso. apply Hn. reflexivity.
Qed.

(* ---------------- booking trades: the pending map ---------------- *)
Lemma book_trade_pending_at (b : broker R) t s :
  keys_nodup (b_pending b) ->
  (t_symbol t = s -> nz_at (b_pending (book_trade b t)) s) /\
  (t_symbol t <> s -> sget (b_pending (book_trade b t)) s = sget (b_pending b) s).
Proof.
  intros Hnd. unfold nz_at. rewrite book_trade_pending_eq, sget_supd by exact Hnd. split; intros H.
  - subst s. rewrite String.eqb_refl.
    match goal with |- (if Req_bool ?v 0 then _ else _) <> _ =>
      destruct (Req_bool_spec v 0) as [Hv|Hv]; [discriminate|] end.
    intros E. inversion E as [E']. exact (Hv E').
  - apply String.eqb_neq in H. rewrite H. reflexivity.
Qed.

Lemma book_trades_pending ts : forall b : broker R,
  keys_nodup (b_pending b) ->
  keys_nodup (b_pending (fold_left book_trade ts b)) /\
  forall s, hget (b_pending (fold_left book_trade ts b)) s = hget (b_pending b) s - sumL (signed_qty s) ts.
Proof.
  induction ts as [|t ts IH]; intros b Hp; cbn [fold_left].
  - split; [exact Hp|]. intros s. rewrite BrokerLedgerProofs.sumR_nil. lra.
  - assert (Hp1 : keys_nodup (b_pending (book_trade b t))).
    { rewrite book_trade_pending_eq. apply supd_nodup. exact Hp. }
    destruct (IH _ Hp1) as [H1 H2]. split; [exact H1|].
    intros s. rewrite H2, book_trade_pending, BrokerLedgerProofs.sumR_cons by exact Hp. lra.
Qed.

(* after the trades are booked the entry of s is not a stored zero, as soon as it was not one before or one
   of the trades is for s (the last trade for s stores the value, or removes the entry when it is zero) *)
Lemma book_trades_nz_at ts : forall (b : broker R) s,
  keys_nodup (b_pending b) ->
  nz_at (b_pending b) s \/ (exists t, In t ts /\ t_symbol t = s) ->
  nz_at (b_pending (fold_left book_trade ts b)) s.
Proof.
  induction ts as [|t ts IH]; intros b s Hp H; cbn [fold_left].
  - destruct H as [H|(t & [] & _)]. exact H.
  - assert (Hp1 : keys_nodup (b_pending (book_trade b t))).
    { rewrite book_trade_pending_eq. apply supd_nodup. exact Hp. }
    destruct (book_trade_pending_at b t s Hp) as [Hsame Hother].
    apply IH; [exact Hp1|].
    destruct (string_dec (t_symbol t) s) as [E|E].
    + left. exact (Hsame E).
    + destruct H as [H|(t' & [Hin|Hin] & Hs)].
      * left. unfold nz_at. rewrite (Hother E). exact H.
      * subst t'. contradiction.
      * right. exists t'. split; assumption.
Qed.

(* ---------------- sending orders: symbols not sent are untouched ---------------- *)
Lemma send_orders_pending_other qk os : forall (b : broker R) b' evs fw s,
  send_orders qk b os = Ok (b', evs, fw) ->
  (forall o, In o fw -> uo_symbol o <> s) ->
  sget (b_pending b') s = sget (b_pending b) s.
Proof.
  induction os as [|o r IH]; intros b b' evs fw s H Hno.
  - cbn [send_orders] in H. inversion H; subst. reflexivity.
  - apply send_orders_cons in H.
    destruct H as (b1 & ev1 & fw1 & evs2 & fw2 & Hs & Hr & _ & ->).
    apply send_order_cases in Hs.
    destruct Hs as [(_ & -> & _ & ->)|(_ & -> & _ & ->)].
    + cbn [Datatypes.app] in Hno. exact (IH _ _ _ _ _ Hr Hno).
    + cbn [Datatypes.app] in Hno.
      rewrite (IH _ _ _ _ s Hr) by (intros o' Hin; apply Hno; right; exact Hin).
      rewrite add_pending_eq. apply sget_sset_other.
      intros E. exact (Hno o (or_introl eq_refl) (eq_sym E)).
Qed.

Lemma pinv_send qk (b : broker R) sells b1 evs fw os :
  send_orders qk b sells = Ok (b1, evs, fw) -> pinv (b_pending b) os -> pinv (b_pending b1) (os ++ fw).
Proof.
  intros Hs (Hnd & Hsum & Hnone).
  destruct (send_orders_pending _ _ _ _ _ _ Hs Hnd) as [Hnd1 Hsum1].
  split; [exact Hnd1|]. split.
  - intros s. rewrite Hsum1, Hsum, BrokerLedgerProofs.sumR_app. reflexivity.
  - intros s Hno. rewrite (send_orders_pending_other _ _ _ _ _ _ s Hs).
    + apply Hnone. intros o Hin. apply Hno. apply in_or_app. left. exact Hin.
    + intros o Hin. apply Hno. apply in_or_app. right. exact Hin.
Qed.

(* ---------------- the exchange side of one tick ---------------- *)
(* the fill of an order moves pending by exactly the order's signed quantity *)
Lemma uist_trade_signed s (o : uorder R) q : signed_qty s (uist_trade o q) = oeff s o.
Proof.
  unfold signed_qty, oeff, order_effect, order_is_buy, uist_trade.
  destruct (otype_is_sell (uo_type o)); cbn [execute_sell execute_buy t_symbol t_side t_quantity negb];
    reflexivity.
Qed.

Notation stays row := (fun e : entry (uorder R) => negb (ufires row e)).
Notation fills row bk := (map snd (flat_map (utrade row) bk)).

Lemma fills_sum (row : quotes (quote R)) s (bk : list (entry (uorder R))) :
  sumL (oeff s) (map (@e_ord _) (filter (stays row) bk)) =
  sumL (oeff s) (map (@e_ord _) bk) - sumL (signed_qty s) (fills row bk).
Proof.
  induction bk as [|e bk IH]; cbn [filter flat_map map]; [rewrite !BrokerLedgerProofs.sumR_nil; lra|].
  rewrite map_app, BrokerLedgerProofs.sumR_app, BrokerLedgerProofs.sumR_cons.
  unfold ufires at 1, utrade at 1.
  destruct (lookup row (uo_symbol (e_ord e))) as [q|].
  - destruct (uist_fires (e_ord e) q); cbn [negb map snd].
    + rewrite IH, BrokerLedgerProofs.sumR_cons, BrokerLedgerProofs.sumR_nil, uist_trade_signed. lra.
    + rewrite BrokerLedgerProofs.sumR_cons, IH, BrokerLedgerProofs.sumR_nil. lra.
  - cbn [negb map]. rewrite BrokerLedgerProofs.sumR_cons, IH, BrokerLedgerProofs.sumR_nil. lra.
Qed.

(* an order that fires leaves a trade for its symbol *)
Lemma fires_fill (row : quotes (quote R)) (bk : list (entry (uorder R))) e :
  In e bk -> ufires row e = true ->
  exists t, In t (fills row bk) /\ t_symbol t = uo_symbol (e_ord e).
Proof.
  intros Hin Hf. unfold ufires in Hf.
  destruct (lookup row (uo_symbol (e_ord e))) as [q|] eqn:Hl; [|discriminate].
  exists (uist_trade (e_ord e) q). split.
  - apply in_map_iff. exists (e_id e, uist_trade (e_ord e) q). split; [reflexivity|].
    apply in_flat_map. exists e. split; [exact Hin|].
    unfold utrade. rewrite Hl, Hf. left. reflexivity.
  - exact (proj1 (uist_trade_fields (e_ord e) q)).
Qed.

(* a successful tick: the trades are the fills of the firing resting orders, the book afterwards is the
   orders that did not fire followed by the buffer in the oracle's order, the buffer is empty *)
Lemma ux_tick_facts05 (x : uexch R) row perm x' trades adm :
  ExchangeProofs.Inv x -> ux_tick x row perm = Some (x', (trades, adm)) ->
  ExchangeProofs.Inv x' /\
  trades = fills row (book x) /\
  (exists sorted, Permutation sorted (buffer x) /\
     map (@e_ord _) (book x') = map (@e_ord _) (filter (stays row) (book x)) ++ sorted) /\
  buffer x' = [].
Proof.
  intros HI H. unfold ux_tick in H.
  destruct (uist_tick x row perm) as [x1 o] eqn:Ht.
  destruct o as [|fl adm1 trig| |]; try discriminate.
  inversion H; subst x1 trades adm1; clear H.
  destruct (uist_tick_spec x row perm x' fl adm trig HI Ht) as (Hfl & _ & Hbk & Hadm).
  destruct (tick_spec uist_asset uo_symbol uist_is_sell uist_decide x row perm x' fl adm trig HI Ht)
    as (sorted & Hap & Hperm & _ & Hrest).
  cbv zeta in Hrest. destruct Hrest as (_ & _ & _ & _ & Hbuf & _).
  split; [|split; [|split]].
  - pose proof (inv_step uist_asset uo_symbol uist_is_sell uist_decide x (Tick row perm) HI) as Hi.
    cbn [step] in Hi. unfold uist_tick in Ht. rewrite Ht in Hi. exact Hi.
  - rewrite Hfl. reflexivity.
  - exists sorted. split; [exact Hperm|].
    rewrite Hbk, map_app. f_equal.
    rewrite Hap in Hadm. rewrite <- Hadm, map_map. apply map_ext. intros p. reflexivity.
  - exact Hbuf.
Qed.

(* the broker books the trades of a tick: pending against what the exchange holds afterwards *)
Lemma pinv_tick (br br0 : broker R) row (bk : list (entry (uorder R))) buf sorted :
  b_pending br0 = b_pending br ->
  pinv (b_pending br) (map (@e_ord _) bk ++ buf) -> Permutation sorted buf ->
  pinv (b_pending (fold_left book_trade (fills row bk) br0))
       (map (@e_ord _) (filter (stays row) bk) ++ sorted).
Proof.
  intros E0 (Hnd & Hsum & Hnone) Hperm.
  assert (Hnd0 : keys_nodup (b_pending br0)) by (rewrite E0; exact Hnd).
  destruct (book_trades_pending (fills row bk) br0 Hnd0) as [Hnd1 Hsum1].
  assert (Hsum' : forall s, hget (b_pending (fold_left book_trade (fills row bk) br0)) s =
                            sumL (oeff s) (map (@e_ord _) (filter (stays row) bk) ++ sorted)).
  { intros s. rewrite Hsum1, E0, Hsum, !BrokerLedgerProofs.sumR_app, fills_sum, (sumL_perm _ _ _ Hperm). lra. }
  split; [exact Hnd1|]. split; [exact Hsum'|].
  intros s Hno. apply nz_at_none.
  - rewrite Hsum'. apply sumL_none. exact Hno.
  - apply book_trades_nz_at; [exact Hnd0|].
    destruct (existsb (fun e => String.eqb (uo_symbol (e_ord e)) s && ufires row e) bk) eqn:Ex.
    + right. apply existsb_exists in Ex. destruct Ex as (e & Hin & He).
      apply andb_true_iff in He. destruct He as [Hs Hf]. apply String.eqb_eq in Hs.
      destruct (fires_fill row bk e Hin Hf) as (t & Ht & Hsym).
      exists t. split; [exact Ht | congruence].
    + left. unfold nz_at. rewrite E0, Hnone; [discriminate|].
      intros o Hin Hs. apply in_app_or in Hin. destruct Hin as [Hin|Hin].
      * apply in_map_iff in Hin. destruct Hin as (e & <- & Hin).
        destruct (ufires row e) eqn:Hf.
        -- assert (Hex : existsb (fun e => String.eqb (uo_symbol (e_ord e)) s && ufires row e) bk = true).
           { apply existsb_exists. exists e. split; [exact Hin|].
             rewrite Hf, Hs, String.eqb_refl. reflexivity. }
           rewrite Hex in Ex. discriminate.
        -- apply (Hno (e_ord e)); [|exact Hs]. apply in_or_app. left.
           apply in_map. apply filter_In. split; [exact Hin|]. rewrite Hf. reflexivity.
      * apply (Hno o); [|exact Hs]. apply in_or_app. right.
        apply (Permutation_in _ (Permutation_sym Hperm)). exact Hin.
Qed.

(* ---------------- the invariant, opened and closed ---------------- *)
Lemma bs_inv_elim (y : bsys R) :
  bs_inv y ->
  SInv (bs_app y) /\
  exists b d k,
    nlookup (backtests (bs_app y)) (bs_id y) = Some b /\
    slookup (datasets (bs_app y)) (bt_dataset b) = Some d /\
    clock_ok d b k /\ rows_total d /\ ExchangeProofs.Inv (bt_exch b) /\
    pinv (b_pending (bs_brkr y)) (map (@e_ord _) (book (bt_exch b)) ++ buffer (bt_exch b)).
Proof.
  intros (Hs & b & d & k & Hb & Hd & Hc & Hrt & HI & Hnd & Hsum & Hnone).
  split; [exact Hs|]. exists b, d, k. repeat (split; [assumption|]).
  rewrite <- (outstanding_eq y b Hb). split; [|exact Hnone].
  intros s. rewrite <- so_sum, <- pend_hget. apply Hsum.
Qed.

Lemma bs_inv_intro (br : broker R) (a : uapp (F:=R)) id b d k :
  SInv a -> nlookup (backtests a) id = Some b -> slookup (datasets a) (bt_dataset b) = Some d ->
  clock_ok d b k -> rows_total d -> ExchangeProofs.Inv (bt_exch b) ->
  pinv (b_pending br) (map (@e_ord _) (book (bt_exch b)) ++ buffer (bt_exch b)) ->
  bs_inv (mkBSys br a id).
Proof.
  intros Hs Hb Hd Hc Hrt HI (Hnd & Hsum & Hnone).
  split; [exact Hs|]. exists b, d, k. cbn [bs_app bs_id bs_brkr].
  repeat (split; [assumption|]).
  assert (Ho : outstanding (mkBSys br a id) = map (@e_ord _) (book (bt_exch b)) ++ buffer (bt_exch b))
    by (apply outstanding_eq; exact Hb).
  split.
  - intros s. rewrite so_sum, pend_hget, Ho. apply Hsum.
  - intros s. rewrite Ho. apply Hnone.
Qed.

(* handing orders to the eager client: they join the buffer of the broker's backtest, nothing else moves *)
Lemma bs_forward_inv (br : broker R) (a : uapp (F:=R)) id fw b d k :
  SInv a -> nlookup (backtests a) id = Some b -> slookup (datasets a) (bt_dataset b) = Some d ->
  clock_ok d b k -> rows_total d -> ExchangeProofs.Inv (bt_exch b) ->
  pinv (b_pending br) ((map (@e_ord _) (book (bt_exch b)) ++ buffer (bt_exch b)) ++ fw) ->
  bs_inv (mkBSys br (forward clean a id fw) id).
Proof.
  intros Hs Hb Hd Hc Hrt HI Hp.
  destruct (forward_gen a id fw id Hs) as (_ & Hs' & Hds').
  destruct (forward_exch fw a id b Hb) as (b' & Hb' & Hpj & Hbk & Hn & Hbf).
  assert (Hbd : bt_dataset b' = bt_dataset b) by (unfold bproj in Hpj; congruence).
  apply (bs_inv_intro br _ id b' d k).
  - exact Hs'.
  - exact Hb'.
  - rewrite Hds', Hbd. exact Hd.
  - exact (clock_ok_proj d b b' k Hpj Hc).
  - exact Hrt.
  - exact (inv_same_book _ _ Hbk Hn HI).
  - rewrite Hbk, Hbf, app_assoc. exact Hp.
Qed.

(* the clock shows a date of the dataset, so the dataset has its row *)
Lemma clock_row (d : dataset (quotes (quote R))) (b : backtest (uexch R)) k :
  clock_ok d b k -> rows_total d -> exists row, get_quotes d (bt_date b) = Some row.
Proof.
  intros [_ Hg] Hrt. unfold get_date in Hg. apply nth_error_In in Hg. apply Hrt in Hg.
  destruct (get_quotes d (bt_date b)) as [row|]; [eauto | contradiction].
Qed.

(* ---------------- one check() of the composition, opened up ---------------- *)
Lemma bs_check_shape (y : bsys R) perm ord y' b d k :
  SInv (bs_app y) -> nlookup (backtests (bs_app y)) (bs_id y) = Some b ->
  slookup (datasets (bs_app y)) (bt_dataset b) = Some d -> clock_ok d b k ->
  bs_step clean y (BSCheck perm ord) = Ok y' ->
  exists b1 hn trades adm br' fw,
    utick1 d b perm = Some (b1, (hn, (trades, adm))) /\
    check clean (bs_brkr y)
      (match get_quotes d (bt_date b1) with Some row => Some (trades, row) | None => None end) ord
      = Ok (br', fw) /\
    y' = mkBSys br' (forward clean (with_backtest (bs_app y) (bs_id y) b1) (bs_id y) fw) (bs_id y).
Proof.
  intros Hs Hb Hd Hc H. cbn [bs_step] in H. unfold check_resp in H.
  rewrite (us_tick _ _ _ _ perm Hb Hd) in H.
  destruct (utick1 d b perm) as [[b1 [hn [trades adm]]]|] eqn:Ht.
  2:{ cbv beta iota in H.
      destruct (usstep clean (bs_app y) (SFetch (bs_id y))) as [a2 rf]. discriminate. }
  cbv beta iota in H.
  destruct (tick1_spec _ _ _ d b perm b1 hn (trades, adm) k Hc Ht) as (Hc1 & _ & Hds1 & _).
  set (a1 := with_backtest (bs_app y) (bs_id y) b1) in *.
  assert (Hb1 : nlookup (backtests a1) (bs_id y) = Some b1).
  { unfold a1, with_backtest. cbn [backtests]. apply nlookup_upsert_same. }
  assert (Hd1 : slookup (datasets a1) (bt_dataset b1) = Some d).
  { unfold a1, with_backtest. cbn [datasets]. rewrite Hds1. exact Hd. }
  rewrite (us_fetch a1 _ _ _ Hb1 Hd1) in H. cbv beta iota in H.
  match type of H with bind ?u _ = _ => destruct u as [[br' fw]|e|] eqn:Hu end;
    cbn [bind] in H; try discriminate.
  inversion H; subst y'; clear H.
  exists b1, hn, trades, adm, br', fw. split; [reflexivity|]. split; [|reflexivity].
  destruct (get_quotes d (bt_date b1)); exact Hu.
Qed.

(* ---------------- (T1) one operation preserves the invariant ---------------- *)
Lemma bs_step_inv : forall y o y', bs_inv y -> bs_step clean y o = Ok y' -> bs_inv y'.
Proof.
  intros y o y' Hinv H.
  destruct (bs_inv_elim y Hinv) as (Hs & b & d & k & Hb & Hd & Hc & Hrt & HI & Hp).
  destruct o as [c|c|c ord|x|perm ord].
  - (* deposit *)
    cbn [bs_step] in H. inversion H; subst y'; clear H.
    apply (bs_inv_intro _ _ _ b d k); try assumption.
    rewrite (proj1 (proj2 (deposit_frame (bs_brkr y) c))). exact Hp.
  - (* withdraw *)
    cbn [bs_step] in H. inversion H; subst y'; clear H.
    apply (bs_inv_intro _ _ _ b d k); try assumption.
    rewrite (proj1 (proj2 (withdraw_frame (bs_brkr y) c))). exact Hp.
  - (* withdraw with liquidation *)
    cbn [bs_step] in H.
    destruct (withdraw_cash_with_liquidation clean (bs_brkr y) c ord) as [[[b' ev] fw]|e|] eqn:Hw;
      cbn [bind] in H; try discriminate.
    inversion H; subst y'; clear H.
    apply liq_clean_sends in Hw. destruct Hw as (sells & evs & Hsend).
    apply (bs_forward_inv b' _ _ fw b d k); try assumption.
    exact (pinv_send _ _ _ _ _ _ _ Hsend Hp).
  - (* send_order *)
    cbn [bs_step] in H.
    destruct (send_order clean (bs_brkr y) x) as [[[b' ev] fw]|e|] eqn:Hw;
      cbn [bind] in H; try discriminate.
    inversion H; subst y'; clear H.
    assert (Hsend : send_orders clean (bs_brkr y) [x] = Ok (b', [ev], fw ++ [])).
    { cbn [send_orders]. rewrite Hw. reflexivity. }
    rewrite app_nil_r in Hsend.
    apply (bs_forward_inv b' _ _ fw b d k); try assumption.
    exact (pinv_send _ _ _ _ _ _ _ Hsend Hp).
  - (* check *)
    destruct (bs_check_shape y perm ord y' b d k Hs Hb Hd Hc H)
      as (b1 & hn & trades & adm & br' & fw & Ht & Hchk & ->).
    destruct (tick1_spec _ _ _ d b perm b1 hn (trades, adm) k Hc Ht) as (Hc1 & _ & Hds1 & Hx).
    destruct (clock_row d b k Hc Hrt) as (row0 & Hq0). rewrite Hq0 in Hx.
    destruct (clock_row d b1 (S k) Hc1 Hrt) as (row1 & Hq1). rewrite Hq1 in Hchk.
    destruct (ux_tick_facts05 _ _ _ _ _ _ HI Hx) as (HI1 & Htr & (sorted & Hperm & Hbk1) & Hbf1).
    apply check_clean_sends in Hchk. destruct Hchk as (sells & evs & b1' & Hsend & Hbr').
    cbn [booked] in Hsend.
    assert (Hp1 : pinv (b_pending (fold_left book_trade trades (update_quotes (bs_brkr y) row1)))
                       (map (@e_ord _) (filter (stays row0) (book (bt_exch b))) ++ sorted)).
    { rewrite Htr. apply (pinv_tick (bs_brkr y) _ row0 _ (buffer (bt_exch b)) sorted); [reflexivity | exact Hp | exact Hperm]. }
    pose proof (pinv_send _ _ _ _ _ _ _ Hsend Hp1) as Hp2.
    assert (Hpe : b_pending br' = b_pending b1') by (destruct Hbr' as [->| ->]; reflexivity).
    set (a1 := with_backtest (bs_app y) (bs_id y) b1).
    assert (Hb1 : nlookup (backtests a1) (bs_id y) = Some b1).
    { unfold a1, with_backtest. cbn [backtests]. apply nlookup_upsert_same. }
    assert (Hd1 : slookup (datasets a1) (bt_dataset b1) = Some d).
    { unfold a1, with_backtest. cbn [datasets]. rewrite Hds1. exact Hd. }
    assert (Hs1 : SInv a1).
    { unfold a1. apply sinv_with_backtest; [exact Hs|]. rewrite Hb. discriminate. }
    apply (bs_forward_inv br' a1 _ fw b1 d (S k)); try assumption.
    rewrite Hpe, Hbk1, Hbf1, app_nil_r. exact Hp2.
Qed.

(* ---------------- (T2) every history ---------------- *)
Theorem c05_pending_end_to_end : forall y0 ops y', bs_inv y0 -> bs_run clean y0 ops = Ok y' -> bs_inv y'.
Proof.
  intros y0 ops. revert y0. induction ops as [|o r IH]; intros y0 y' Hinv H; cbn [bs_run] in H.
  - inversion H; subst y'. exact Hinv.
  - destruct (bs_step clean y0 o) as [y1|e|] eqn:Hs; cbn [bind] in H; try discriminate.
    exact (IH y1 y' (bs_step_inv y0 o y1 Hinv Hs) H).
Qed.

Lemma bs_inv_fresh (a : uapp (F:=R)) id b d brk :
  SInv a -> nlookup (backtests a) id = Some b -> slookup (datasets a) (bt_dataset b) = Some d ->
  clock_ok d b 0 -> bt_exch b = exch_init -> rows_total d -> b_pending brk = [] ->
  bs_inv (mkBSys brk a id).
Proof.
  intros Hs Hb Hd Hc Hx Hrt Hpe.
  apply (bs_inv_intro brk a id b d 0%nat); try assumption.
  - rewrite Hx. apply inv_init.
  - rewrite Hx, Hpe. cbn [exch_init book buffer map Datatypes.app].
    split; [constructor|]. split; intros s; reflexivity.
Qed.

Theorem c05_pending_from_fresh :
  forall (a : uapp (F:=R)) id b d brk ops y',
    SInv a -> nlookup (backtests a) id = Some b -> slookup (datasets a) (bt_dataset b) = Some d ->
    clock_ok d b 0 -> bt_exch b = exch_init -> rows_total d -> b_pending brk = [] ->
    bs_run clean (mkBSys brk a id) ops = Ok y' ->
    (forall s, pend (bs_brkr y') s = signed_outstanding y' s) /\
    (outstanding y' = [] -> b_pending (bs_brkr y') = []).
Proof.
  intros a id b d brk ops y' Hs Hb Hd Hc Hx Hrt Hpe Hrun.
  pose proof (c05_pending_end_to_end _ ops y' (bs_inv_fresh a id b d brk Hs Hb Hd Hc Hx Hrt Hpe) Hrun)
    as (_ & b' & d' & k' & _ & _ & _ & _ & _ & _ & Hsum & Hnone).
  split; [exact Hsum|].
  intros Ho. destruct (b_pending (bs_brkr y')) as [|[s v] m] eqn:E; [reflexivity|].
  exfalso. assert (Hn : sget ((s, v) :: m) s = None).
  { apply Hnone. intros o Hin. rewrite Ho in Hin. contradiction. }
  cbn [sget] in Hn. rewrite String.eqb_refl in Hn. discriminate.
Qed.

(* ---------------- (T3) holdings-with-pending ---------------- *)
(* get_holdings_with_pending(s) = holdings(s) + signed quantity of the orders the exchange still holds for s
   (absent = 0), and is absent exactly when the broker holds nothing of s and has no pending entry for s —
   in particular whenever it holds nothing of s and the exchange holds no order for s *)
Corollary c05_with_pending_end_to_end (y : bsys R) s :
  bs_inv y ->
  holdings_with_pending (bs_brkr y) s =
  match sget (b_holdings (bs_brkr y)) s, sget (b_pending (bs_brkr y)) s with
  | None, None => None
  | _, _ => Some (hget (b_holdings (bs_brkr y)) s + signed_outstanding y s)
  end /\
  ((forall o, In o (outstanding y) -> uo_symbol o <> s) ->
   holdings_with_pending (bs_brkr y) s = sget (b_holdings (bs_brkr y)) s).
Proof.
  intros (_ & b & d & k & _ & _ & _ & _ & _ & _ & Hsum & Hnone). split.
  - rewrite with_pending_sum, <- Hsum, pend_hget. reflexivity.
  - intros Hno. unfold holdings_with_pending. rewrite (Hnone s Hno).
    destruct (sget (b_holdings (bs_brkr y)) s); reflexivity.
Qed.

End EndToEnd05.

Check bs_step_inv.
Check c05_pending_end_to_end.
Check c05_pending_from_fresh.
Check c05_with_pending_end_to_end.
Print Assumptions bs_step_inv.
Print Assumptions c05_pending_end_to_end.
Print Assumptions c05_pending_from_fresh.
