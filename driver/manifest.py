#!/usr/bin/env python3
"""Regenerates /verif/MANIFEST.json from the table below."""
import json
import os
import subprocess

VERIF = os.path.dirname(os.path.dirname(os.path.abspath(__file__)))

# id -> (technique, level text, level note, design ref)
R_AX = "std-lib real-number axioms named in the evidence (sig_forall_dec, sig_not_dec, functional_extensionality_dep, classic); "
TB = ("Trusted: Coq 8.16.1 kernel + vm_compute (primitive floats); hand-written Gallina model tied to /repo only by the "
      "correspondence check of each run (differential testing on generated traces: a sample, not a proof); Rust harness, Python driver. ")
SK = "Theorems about the exchange skeleton hold for EVERY decision function and every number type; "

CHECKS = {
    "C01": ("Coq proof by invariant + induction over operation lists (exchange skeleton, every decision function; server generic in the exchange); end-to-end theorem by ghost-tag instrumentation with erasure (refinement) + step-wise correspondence",
            SK + "c01_fills_only_from_resting_book / c01_unquoted_keeps_resting / c01_admitted_rest_after_tick: a tick's fills come only from orders resting before it, priced/dated from that tick's quote for their symbol; server: a tick matches exactly the row of the clock date and the clock advances by one per tick (any interleaving), with increasing dates later rows are dated strictly later. END TO END as one theorem (c01_end_to_end; instances c01_uist_end_to_end / c01_jura_end_to_end over datasets built by Penelope::add_quote): orders carry a ghost tag — the clock date their backtest showed at submission — through the same polymorphic skeleton; erasing the tags gives back the model compared with the code (c01_tagged_run_erases); for every history over any number of backtests, if no tick follows a has_next=false answer, every fill is dated strictly later than its order's tag; c01_after_end_not_strict shows the caveat is necessary. Every run compares exchange and server steps of both services, and the datasets themselves (Model/Penelope.v's load vs the real Penelope), with the model from the implementation's own pre-state.",
            TB + "The ghost tags exist only in the model (erasure theorem ties them to the untagged model).", "3/C01, 8.2"),
    "C02": ("Coq proof (concrete Uist decision + master tick lemma, every Num F) + step-wise bit-exact correspondence",
            "c02_fires_iff (against an independently written ShouldFill), c02_trade_fields, c02_tick: fills are exactly one per firing resting order in book order, non-firing/unquoted orders rest unchanged; never panics. Holds for every number type with no arithmetic law assumed, hence for the IEEE instance compared bit-for-bit with UistV1 on every run (all 6 types x price relation x quoted? classes reported in evidence).",
            TB, "3/C02"),
    "C03": ("Coq proof: conservation invariant (multiset of ids) by induction over all operation lists, every decision function + step-wise correspondence",
            SK + "c03_conservation (ids 0..counter-1 = resting + removed as multisets, at every moment), c03_no_id_fills_twice, c03_removed_never_returns, c03_ids_strictly_increasing, c03_cancel_exact / _unknown_noop, c03_tick_master (batch admitted exactly once).",
            TB + "u64 wrap-around of the id counter after 2^64 admissions is not modelled (ids are unbounded N).", "3/C03"),
    "C04": ("Coq proof: exact per-operation cash law (every Num F) + ledger by induction over all histories (R) + step-wise correspondence; one open known finding",
            "c04_step_cash_exact, c04_step_event_exact (IEEE-exact, every Num F), c04_ledger over all histories at R. The code as it is carries the recorded defect q_liq_fail_debit (failed liquidation request <= cash debits it): c04_refuted_q_liq_fail_debit is the witness, listed in known_findings.txt; the check reports it as KNOWN-FINDING and reports any other deviation as a violation. END TO END over the composition broker + eager client + Uist server + Uist exchange for an arbitrary client (Model/BrokerSys.v, Props/C04sys.v): cash = initial + accepted deposits - successful withdrawals - buys + sells over the EXCHANGE'S OWN trade log (c04s_cash_from_exchange_log), and for the code as it is the same law with exactly one extra term, the forced debits of failed liquidation requests not exceeding cash (c04s_cash_from_exchange_log_as_is). AT THE IEEE INSTANCE for whole-unit amounts (Props/C04float.v, via Flocq): over ALL histories whose amounts (deposits, withdrawals, trade values) are integer-valued binary64 values with |initial cash| + total of all |amounts| below 2^53, the float cash IS the integer ledger — accepted deposits - successful withdrawals - buys + sells, each once — as an equality of floats, the accept / refuse decisions being the integer comparisons (c04f_history, c04f_headline), and for the code as it is with the one extra integer term (c04f_as_is).",
            TB + R_AX + "For fractional amounts IEEE rounding in the summed ledger is outside c04_ledger (the step law is exact); for whole-unit amounts below 2^53 in total volume there is no rounding (Props/C04float.v, which additionally depends on the specification axioms the standard library declares for primitive floats and 63-bit integers, listed by name in the evidence).", "3/C04"),
    "C05": ("Coq proof: step laws (every Num F) + reconciliation of holdings/pending with the log by induction over all histories (R) + IEEE exactness for whole shares (Flocq) + step-wise correspondence",
            "c05_holdings_reconcile, c05_pending_reconcile, c05_no_zero, c05_log_step, c05_with_pending at R; and at the IEEE instance for whole shares (Props/C05float.v, via Flocq): binary64 +, -, ==0 are exact on integer-valued floats below 2^53, lifted to book_trade and whole trade lists — c05f_holdings_are_bought_minus_sold: the float holdings ARE bought minus sold and a flat position is absent, no rounding. END TO END over the composition for an arbitrary client (Props/C05sys.v): the broker's trade log IS the exchange's own trade log of its backtest, holdings are bought minus sold over it, pending exposure per symbol equals the signed quantity of this broker's orders the exchange still holds and the map is empty as soon as none is left (c05s_pending_from_fresh).",
            TB + R_AX + "Props/C05float.v additionally depends on the specification axioms the standard library declares for primitive floats and 63-bit integers (FloatAxioms.add_spec, sub_spec, eqb_spec, opp_spec, of_uint63_spec, Prim2SF_valid, SF2Prim_Prim2SF, Prim2SF_SF2Prim; Uint63.add_spec, sub_spec, lsl_spec, lsr_spec, lor_spec, ltb_spec, leb_spec, eqb_refl, eqb_correct, of_to_Z), listed by name in the evidence. Fractional quantities: the [R] theorems stand, the gap is rounding.", "3/C05, 8.2"),
    "C06": ("Coq proof: gate characterised for every broker state and all six order types (every Num F); both client kinds + step-wise correspondence with eager and lazy harness clients",
            "c06_gate_iff (forward iff the four conditions; never a panic, for a quoted symbol), c06_refusal_inert, c06_forward_once, c06_delivered_any_client. END TO END over the composition broker + client + Uist server + exchange, every Num F, axiom-free (Props/C06sys.v): a refused order leaves the WHOLE system unchanged (c06s_refused_inert); a forwarded one lands exactly once, unchanged, at the end of its backtest's buffer with the resting book, ids, log, clock and every other backtest untouched and only pending exposure moving in the broker (c06s_forwarded_once), and the next check admits it under a fresh id without filling it (c06s_forwarded_then_admitted). Every run drives send_order through an eager and a lazily polled client and compares what reached the exchange.",
            TB + "'well-formed' is read as 'for a symbol with a last-seen quote' (the code unwraps the quote; modelled as Panic, excluded by premise). The reqwest Client is represented by an in-process lazy client.", "3/C06"),
    "C07": ("Coq proof: clock lemma by induction over all interleavings, generic in the exchange; loop termination with fuel + step-wise correspondence with shadow exchange",
            "c07_tick, c07_clock_after_history, c07_now, c07_fetch_quotes, c07_loop_count, c07_loop_terminates for both services (same generic model); the datasets are those Penelope::add_quote builds (Model/Penelope.v): c07_dataset_dates (distinct dates in order of first appearance, for every loading script), c07_dataset_dates_increasing, c07_dataset_invariant, c07_dataset_rows_own_date, c07_dataset_shows_last_added. Every run also compares the model's load of each scenario's script with what the real Penelope shows, and drives the crate's own uistv1_client::TestClient through whole histories on several backtests in LOCKSTEP with the oracle-free model (Penelope script -> AppState::single -> UistClient trait; no re-synchronisation, no sort oracle).",
            TB + "Mutex atomicity of handlers is read off the code.", "3/C07, 8.2"),
    "C08": ("Coq proof: id freshness invariant and noninterference by simulation over all interleavings, generic in the exchange + step-wise correspondence",
            "c08_fresh_ids, c08_create_spec, c08_step_frame, c08_step_local, c08_noninterference, c08_unknown_backtest/_dataset. Besides the step-wise comparison of AppState (both services), every run drives the crate's own uistv1_client::TestClient over several backtests in lockstep with the oracle-free model; when that breaks, the isolation clause is read directly (the same history with the other backtests' requests removed must give the same responses).",
            TB + "Mutex atomicity of handlers is read off the code; HTTP 400 mapping is C20's handler layer.", "3/C08"),
    "C09": ("Coq proof: Failed-iff at R (loop invariant showing the second failure exit unreachable), absorbing for every Num F + step-wise correspondence at constructed boundaries",
            "c09_failed_iff, c09_absorbing, c09_failed_refuses, c09_failed_still_books, c09_only_reconciliation_fails. END TO END over the composition broker + client + Uist server + exchange for ALL histories, every Num F, axiom-free (Props/C09sys.v): Failed for ever (c09s_failed_forever); deposits, withdrawals and orders leave the whole system unchanged (c09s_failed_refusals_inert, c09s_failed_history); a check still books exactly the fills the tick returned into cash, holdings, pending and both logs and forwards nothing (c09s_failed_check_only_books); no order of a Failed broker ever reaches the exchange again (c09s_failed_nothing_reaches_exchange).",
            TB + R_AX + "at the boundary -cash + 1000 = liquidation value the float sum order may decide differently from the reals.", "3/C09"),
    "C10": ("Coq proof at R: loop invariant over the holdings in any iteration order + step-wise correspondence",
            "c10_sufficient, c10_rebalance_sufficient (success => market sells within holdings worth >= request; failure => nothing queued), for whole-share long portfolios and every holdings order. END TO END over the composition broker + client + Uist server + exchange (Props/C10sys.v, c10s_cash_raised): after a successful liquidation the sells are exactly the broker's outstanding orders, the first check admits them, the second fills each exactly once at the unchanged bid, and cash = cash0 + sum shares x bid >= cash0 + request with nothing outstanding, pending empty and holdings reduced by what was sold — the requested amount is really raised two ticks later.",
            TB + R_AX + "ceil/division rounding in floats is outside the theorem.", "3/C10"),
    "C11": ("Coq proof at R (sums, permutation invariance, cost-basis fold vs an independent 'since last flat' spec); stored-quote invariant through the composed system by induction over updates (every Num F) + bit-exact correspondence of all getters",
            "c11_total, c11_liq_le_total, c11_liq_eq_total_without_costs (every Num F), c11_cost_basis, c11_profit; the first sentence as theorems about the full composition for every Num F (Props/C11quotes.v): from a fresh start, after any number of updates every stored quote is latest_upto at the date index the clock shows (c11q_after_updates; a gap keeps the previous quote), never dated after the clock (c11q_never_later), the most recent quoting row (c11q_most_recent), and the position is valued at quantity x that bid (c11q_valuation).",
            TB + R_AX, "3/C11, 8.2"),
    "C12": ("Coq proof at R: closed form of the loop vs an independently written per-symbol relation; permutation invariance + bit-exact correspondence",
            "c12_per_symbol (orders = exactly the wanted ones), c12_one_order_per_quoted_target, c12_sells_first_shape, c12_order_independent for every iteration order of weights and holdings.",
            TB + R_AX, "3/C12"),
    "C13": ("Coq proof over R by induction on the cost list + bit-exact model/code correspondence + the cost functions re-translated from the Rust source on every run and proved equal to the model for every Num F (tools/rs2v.py, Check/GenEquiv.v)",
            "Theorems c13_* (Props/C13.v): no-overspend for every cost list of any length/order with each percentage in [0,1), fee additivity, price direction, budget monotonicity; proved of the Gallina model at F := R. The same definitions at the IEEE instance are compared bit-for-bit with BrokerCost on generated inputs every run; the cost model is also read as the broker applies it (rebalancing sizes and fee figures of brokers built from a possibly re-used builder must use the configured cost list).",
            TB + R_AX + "IEEE rounding in the inequality is outside the theorem.", "3/C13"),
    "C14": ("Coq proof at R (exp/ln compounding, population variance, scale invariance) + bit-exact correspondence with observed libm table",
            "c14_period, c14_total, c14_total_no_flows, c14_best/_worst, c14_vol, c14_cagr, c14_sharpe, c14_scale, c14_vectors.",
            TB + R_AX + "ln/exp/powf are the mathematical functions in the theorems; the platform libm's values are observed per run (table), not modelled.", "3/C14"),
    "C15": ("Coq proof at R AND at the IEEE binary64 instance (monotone rounding, via Flocq): scan loop invariant (prefix maximum, minimum since, best pair so far) + bit-exact correspondence + maxdd re-translated from the Rust source on every run and proved equal to the model for every Num F (tools/rs2v.py, Check/GenEquivPerf.v)",
            "c15_scan, c15_bounds, c15_monotone, c15_calculate at R (value is the minimum over i <= j; reported dates realise it, start <= end). AT THE IEEE INSTANCE (Props/C15float.v): for every non-empty path of finite positive binary64 values the scan's answer IS the float expression v_end / v_start - 1.0 at the reported positions start <= end and is <= v_j / v_i - 1.0 (both roundings, overflow to +inf included) for every i <= j, lies in [-1, 0], and is +0.0 on a path that never falls (c15f_scan, c15f_bounds, c15f_monotone) - no real-number idealisation of the scan is left; the compounding of the index from the returns (one multiplication per period) is the part still stated over R.",
            TB + R_AX + "Props/C15float.v additionally depends on the specification axioms the standard library declares for primitive floats (FloatAxioms.div_spec, sub_spec, leb_spec, ltb_spec, eqb_spec, opp_spec, abs_spec, Prim2SF_valid, SF2Prim_Prim2SF, Prim2SF_SF2Prim), listed by name in the evidence.", "3/C15, 8.2"),
    "C16": ("Coq proof: composition model (strategy + broker + eager client + Uist server + exchange): run() performs exactly N updates by the server clock lemma; ncf ledger and 'no value from trading' invariant at R + step-wise correspondence and direct reading of whole run() calls",
            "c16_run_walks_dataset, c16_update_is_one_tick, c16_run_fuel_irrelevant (termination after exactly N updates, snapshot dates = clock after each tick), c16_cash_flow over all histories, c16_constant_prices_end_to_end — ONE theorem about the full composition: on an N-date dataset with constant zero-spread prices (gaps allowed) init(c) then run() performs N updates, records N snapshots, every snapshot's value equals c, for every weight map, cost list, hash order and sort oracle (c16_constant_prices_with_withdrawals: minus successful plain withdrawals); the system invariant is a state property established by the fresh start. init / update / withdrawals are compared step by step with the model; whole run() calls are judged by the direct reading (history length, dates, values, ncf). Composed with C14 (Props/C16perf.v): perf() of such a run reports N values all c, N-1 returns all 0 and zero total return, CAGR, volatility, drawdown and Sharpe (c16p_constant_prices), and for ANY prices the report's dates are the clock dates after each tick (c16p_dates).",
            TB + R_AX + "Intermediate hash orders inside one run() call are not observable, so whole run() calls are judged by the direct reading, init/update step by step against the model. The value theorem is over the reals.", "3/C16, 8.2"),
    "C17": ("Coq proof for every admissible sort result and every batch size (skeleton, every decision function) + exact Gallina model of the standard library's stable sort (insertion sort / driftsort) proved to satisfy the specification for the exchanges' comparator at every length + exact admission order compared on every trace",
            SK + "c17_admission, c17_sells_get_smaller_ids, c17_ids_grow_with_admission, c17_fills_in_book_order, c17_book_sorted_always hold for every permutation of the buffer that puts sells first. slice::sort_by with this first-argument-only comparator is outside sort_by's contract, so Model/Sort.v transcribes what the installed std (rustc 1.95.0) does, function by function (insertion_sort_shift_left up to 20; driftsort: run detection, powersort merge tree, logical merges, merge through scratch, stable quicksort with pivot selection and the equal-partition branch, small_sort_general, the order-violation panic), generic in element type, comparator and size_of; Props/C17sort.v: the result is a permutation (c17s_result_is_permutation), sells first (c17s_sells_first), the sort never panics for this comparator (c17s_total), closed form up to 20 (sells reversed, then buys), and the oracle-free tick refines the oracle tick (c17s_tick_std_refines, c17s_run_std_refines) and never rejects. Every admission of every trace is compared with the model's exact order (aspect sort_exact, size_of::<Order>() as observed), and every observed exchange state must satisfy the invariant of the model's reachable states (book sorted by id, ids below the counter) that the per-tick theorems assume; thorough tier: sortval/run.sh compares the model with the real sort_by on 30 000+ inputs, nine comparator families (inconsistent ones included).",
            TB + "The transcription of std's sort is tied to the installed toolchain by the validation (32 075 of 32 075 inputs identical, re-run in the thorough tier) and by the per-run exact-order comparison; a different std version could sort differently, which those comparisons would show.", "3/C17, 8.6"),
    "C18": ("Coq proof (concrete Jura decision + lifecycle through the master tick lemma, every Num F) + step-wise bit-exact correspondence",
            "c18_ioc_first_attempt / _after_attempt / _lifecycle_*, c18_gtc, c18_trigger_decision (against independent ShouldFire), c18_trigger_lifecycle (child: fresh id, announced, not fillable on the same tick), c18_fill_fields. Over WHOLE HISTORIES (Props/C18history.v), with a ghost count of quoted ticks per resting order kept alongside the run and defined independently of the exchange's flag: an IOC fill happens only on the first tick since admission that quotes its asset (c18h_ioc_fills_only_at_first_quoted_tick), otherwise it is marked, dropped at the next quoted tick and never fills later; a trigger order never fills at any point of any history; an announced child is fresh, rests, and fills only strictly later; a GTC limit rests until its condition holds on a quoted tick.",
            TB + "limit_px / sz strings are modelled by their parse::<f64>() value (observed); Alo and unparsable strings are modelled as panics and excluded by premise.", "3/C18"),
    "C19": ("Coq proof, unbounded in Z: date-only lemma; spec equivalence by a complete vm_compute sweep of one 400-year period (146 097 days) lifted to every day by periodicity of the Gregorian calendar; exhaustive model/code comparison on that period plus blocks across the time crate's range",
            "c19_date_only and c19_spec for EVERY timestamp (pre-1970 included); c19_calendar_epoch / c19_calendar_next characterise the model's calendar as the proleptic Gregorian one on every day; c19_calendar_period (400 years = 146 097 days = whole weeks). Every run compares the model with the time crate and schedule/mod.rs on every day 1970-2369 at several times of day and on blocks spread over years -9999..9999 (negative timestamps at non-midnight times), reads the property directly with Python's calendar, and asks every question again after queries about neighbouring years and months (the answer must be a function of its argument).",
            "Trusted: Coq kernel + vm_compute (two sweeps); the time crate's calendar is compared on one full period and sampled blocks, not modelled. Timestamps beyond the time crate's range make DateTime panic in the code: outside 'the supported range'.", "3/C19, 8.2"),
    "C20": ("Coq proof: JSON-tree round trips for every message type of both services + handler layer faithful over all request sequences; three-way correspondence (in-process / actix with real JSON / model)",
            "c20_transport_faithful (Uist) and c20_jura_transport_faithful (Jura, generic in the exchange, over the endpoints http/jura.rs mounts): decoded response stream = in-process result stream for every request sequence; c20_status_400_iff_none / c20_jura_status_400_iff_none; c20_rt_* (17 message types). Every run executes each scenario in-process and through actix_web::test with real JSON bodies and compares them (structure exact, floats 1e-12, 400 exactly at None), compares the HTTP run step by step with the server model, and compares every JSON body as a tree with the model's encoders/decoders.",
            TB + "PARTIAL BY NATURE: serde_json's text layer, actix routing/extractors and the mutex are exercised, not modelled; the Jura transport theorem is at the level of the wire types (strings for px/sz).", "3/C20"),
}

NOT_YET = {}

ALL = ["C%02d" % i for i in range(1, 21)]


def main():
    hooks_commits = subprocess.run(
        ["git", "-C", "/repo", "log", "--format=%H %s"], capture_output=True, text=True).stdout.split("\n")
    hook_ids = [l.split()[0] for l in hooks_commits if "verif" in l and not l.split(" ", 1)[1].startswith("fix:")]
    checks = []
    for pid in ALL:
        if pid not in CHECKS:
            continue
        tech, text, note, ref = CHECKS[pid]
        checks.append({
            "property_id": pid,
            "quick_cmd": "./check %s --tier quick" % pid,
            "thorough_cmd": "./check %s --tier thorough" % pid,
            "evidence_file": "/verif/evidence/%s.json" % pid,
            "replay_cmd_template": "./check %s --replay {path}" % pid,
            "engine": "coq-proof+correspondence",
            "level_claimed": {"category": "proof", "text": text, "design_ref": "DESIGN.md §" + ref},
            "level_note": note,
            "technique": tech,
        })
    na = [{"property_id": p, "reason": NOT_YET.get(p, "check not built yet in this revision (model/theorems under construction); planned per DESIGN.md §3")}
          for p in ALL if p not in CHECKS]
    m = {
        "version": 1,
        "setup_cmd": "./setup.sh",
        "hooks": {
            "guard": "cargo feature `verif` (rotala/verif, alator/verif)",
            "enable": "harness crate depends on rotala and alator by path with features=[\"verif\"]",
            "baseline_off_cmd": "cd /repo && cargo test --workspace --no-fail-fast --offline",
            "source_commits": hook_ids,
            "add_only": True,
        },
        "engines": [{
            "name": "coq-proof+correspondence", "path": "/verif/check",
            "serves_properties": [c["property_id"] for c in checks],
            "kind_free_text": "Coq 8.16.1 theorems about a hand-written executable Gallina model (coq/), tied to /repo on every run by a step-wise correspondence check: Rust harness (harness/) drives the real crates, Python driver (driver/) writes the traces as Gallina terms, coqc evaluates boolean checkers by vm_compute",
        }],
        "checks": checks,
        "not_applicable": na,
        "notes": "Every check: (1) make + re-check Props/Cxx.v, Print Assumptions allow-list, forbidden-token grep; (2) rebuild harness from /repo working tree with hooks on; (3) correspondence + direct property oracles on the implementation's outputs; (4) evidence. See DESIGN.md.",
    }
    # all twenty properties are claimed: the list is written out empty rather than left out
    with open(os.path.join(VERIF, "MANIFEST.json"), "w") as f:
        json.dump(m, f, indent=1)


if __name__ == "__main__":
    main()
