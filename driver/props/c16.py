"""C16 — the strategy loop. Theorems: Props/C16.v; slice: strategy steps + direct reading of run()."""
import strategy


def run(res, tier, seed, replay):
    return strategy.run_property(res, "C16", tier, seed, replay, ["C16", "C16perf", "C16float"])
