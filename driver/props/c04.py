"""C04 — broker slice; see driver/broker.py and Props/C04.v"""
import broker


def run(res, tier, seed, replay):
    return broker.run_property(res, "C04", tier, seed, replay, ["C04", "C04sys", "C04float"])
