(* Broker.v — UistBroker (broker/uist.rs) and the trait-default logic of broker/mod.rs:
   cash operations, order gate, check (reconciliation), rebalance_cash, liquidation, valuation,
   cost basis, diff_brkr_against_target_weights. The exchange/server is the environment: what the
   client calls returned is an input, the orders forwarded are an output. HashMap iteration orders
   are oracle arguments. Definitions only. *)
From Coq Require Import ZArith NArith List Bool String.
From Alator Require Import Model.Num Model.Quirks Model.Cost Model.Exchange Model.Uist.
Import ListNotations.
Local Open Scope num_scope.

Inductive res (A : Type) :=
| Ok (a : A)
| Panic (site : string)      (* the code panics here *)
| BadOracle.                 (* an oracle argument failed its check *)
Arguments Ok {A}. Arguments Panic {A}. Arguments BadOracle {A}.

Definition bind {A B} (r : res A) (f : A -> res B) : res B :=
  match r with Ok a => f a | Panic s => Panic s | BadOracle => BadOracle end.

Section Broker.
Context {F : Type} {NF : Num F}.
Context (qk : quirks).

(* string-keyed maps (HashMap<String, _>, keys unique) *)
Definition smap (A : Type) := list (string * A).
Fixpoint sget {A} (m : smap A) (k : string) : option A :=
  match m with
  | [] => None
  | (k', a) :: m' => if String.eqb k k' then Some a else sget m' k
  end.
Fixpoint sremove {A} (m : smap A) (k : string) : smap A :=
  match m with
  | [] => []
  | (k', a) :: m' => if String.eqb k k' then m' else (k', a) :: sremove m' k
  end.
Fixpoint sset {A} (m : smap A) (k : string) (a : A) : smap A :=
  match m with
  | [] => [(k, a)]
  | (k', a') :: m' => if String.eqb k k' then (k, a) :: m' else (k', a') :: sset m' k a
  end.
Definition skeys {A} (m : smap A) : list string := map fst m.

Fixpoint smem (k : string) (l : list string) : bool :=
  match l with [] => false | x :: r => String.eqb k x || smem k r end.
Fixpoint snodup (l : list string) : bool :=
  match l with [] => true | x :: r => negb (smem x r) && snodup r end.
(* [ord] is a duplicate-free enumeration of exactly the keys of [m] *)
Definition is_order_of {A} (ord : list string) (m : smap A) : bool :=
  Nat.eqb (List.length ord) (List.length m) && snodup ord && forallb (fun k => smem k (skeys m)) ord.

Record broker := mkBroker {
  b_cash : F;
  b_holdings : smap F;
  b_pending : smap F;
  b_quotes : smap (quote F);       (* latest_quotes *)
  b_log : list (trade F);
  b_costs : list (cost F);
  b_failed : bool;                 (* BrokerState::Failed *)
}.

Definition set_cash (b : broker) (c : F) : broker :=
  mkBroker c (b_holdings b) (b_pending b) (b_quotes b) (b_log b) (b_costs b) (b_failed b).
Definition set_failed (b : broker) : broker :=
  mkBroker (b_cash b) (b_holdings b) (b_pending b) (b_quotes b) (b_log b) (b_costs b) true.
Definition set_pending (b : broker) (p : smap F) : broker :=
  mkBroker (b_cash b) (b_holdings b) p (b_quotes b) (b_log b) (b_costs b) (b_failed b).

Inductive cash_event :=
| WithdrawSuccess (x : F) | WithdrawFailure (x : F) | DepositSuccess (x : F) | OperationFailure (x : F).

Inductive order_event :=
| OrderSentToExchange (o : uorder F)
| OrderInvalid (o : uorder F).

(* ---- CashOperations ------------------------------------------------------------------------ *)
Definition credit (b : broker) (v : F) : broker := set_cash b (v + b_cash b).
Definition debit (b : broker) (v : F) : broker * cash_event :=
  if v >? b_cash b then (b, WithdrawFailure v) else (set_cash b (b_cash b - v), WithdrawSuccess v).
Definition debit_force (b : broker) (v : F) : broker := set_cash b (b_cash b - v).

Definition withdraw_cash (b : broker) (c : F) : broker * cash_event :=
  if b_failed b then (b, OperationFailure c)
  else if c >? b_cash b then (b, WithdrawFailure c)
  else (fst (debit b c), WithdrawSuccess c).

Definition deposit_cash (b : broker) (c : F) : broker * cash_event :=
  if b_failed b then (b, OperationFailure c) else (credit b c, DepositSuccess c).

(* ---- Portfolio getters ---------------------------------------------------------------------- *)
Definition position_qty (b : broker) (s : string) : option F := sget (b_holdings b) s.
Definition position_value (b : broker) (s : string) : option F :=
  match sget (b_quotes b) s with
  | Some q => match position_qty b s with Some qty => Some (q_bid q * qty) | None => None end
  | None => None
  end.
Definition position_liquidation_value (b : broker) (s : string) : option F :=
  match position_value b s with
  | Some pv =>
      match position_qty b s with
      | Some qty => Some (fst (trade_impact_total (b_costs b) pv (pv / qty) false))
      | None => None
      end
  | None => None
  end.
(* [ord]: iteration order of get_positions() *)
Definition total_value (b : broker) (ord : list string) : F :=
  fold_left (fun v a => match position_value b a with Some pv => v + pv | None => v end) ord (b_cash b).
Definition liquidation_value (b : broker) (ord : list string) : F :=
  fold_left (fun v a => match position_liquidation_value b a with Some pv => v + pv | None => v end)
            ord (b_cash b).

(* UistBrokerLog::cost_basis *)
Definition cost_basis_fold (log : list (trade F)) (s : string) : F * F :=
  fold_left (fun (acc : F * F) (t : trade F) =>
    if String.eqb (t_symbol t) s then
      let '(q, v) := acc in
      let '(q', v') := match t_side t with
                       | Buy => (q + t_quantity t, v + t_value t)
                       | Sell => (q - t_quantity t, v - t_value t)
                       end in
      if q' ==? fzero then (q', fzero) else (q', v')
    else acc) log (fzero, fzero).
Definition cost_basis (log : list (trade F)) (s : string) : option F :=
  let '(q, v) := cost_basis_fold log s in
  if q ==? fzero then None else Some (v / q).
Definition position_profit (b : broker) (s : string) : option F :=
  match cost_basis (b_log b) s with
  | Some cost =>
      match position_qty b s with
      | Some qty =>
          match position_value b s with
          | Some pv => Some (qty * (pv / qty - cost))
          | None => None
          end
      | None => None
      end
  | None => None
  end.
(* get_holdings_with_pending, as a lookup *)
Definition holdings_with_pending (b : broker) (s : string) : option F :=
  match sget (b_holdings b) s, sget (b_pending b) s with
  | Some h, Some p => Some (h + p)
  | Some h, None => Some h
  | None, Some p => Some p
  | None, None => None
  end.

(* ---- the order gate: SendOrder::send_order --------------------------------------------------- *)
Definition order_is_buy (o : uorder F) : bool := negb (otype_is_sell (uo_type o)).

Inductive gate_result := GPanic (site : string) | GInvalid | GForward.

Definition gate (b : broker) (o : uorder F) : gate_result :=
  if b_failed b then GInvalid else
  match sget (b_quotes b) (uo_symbol o) with
  | None => GPanic "send_order: no quote for symbol (unwrap)"
  | Some q =>
      let price := if order_is_buy o then q_ask q else q_bid q in
      let value := uo_shares o * price in
      let cash_check :=      (* client_has_sufficient_cash: Some true = ok, Some false = refuse, None = panic *)
        match uo_type o with
        | MarketBuy => Some (b_cash b >? value)
        | MarketSell => Some true
        | LimitBuy | StopBuy => if q_limit_panics qk then None else Some (b_cash b >? value)
        | LimitSell | StopSell => if q_limit_panics qk then None else Some true
        end in
      match cash_check with
      | None => GPanic "client_has_sufficient_cash: unreachable!"
      | Some false => GInvalid
      | Some true =>
          let holdings_ok :=
            match uo_type o with
            | MarketSell => match position_qty b (uo_symbol o) with
                            | Some h => h >=? uo_shares o
                            | None => true
                            end
            | _ => true
            end in
          if negb holdings_ok then GInvalid
          else if uo_shares o ==? fzero then GInvalid
          else GForward
      end
  end.

Definition order_effect (o : uorder F) : F := if order_is_buy o then uo_shares o else - uo_shares o.

Definition add_pending (b : broker) (o : uorder F) : broker :=
  set_pending b (match sget (b_pending b) (uo_symbol o) with
                 | Some p => sset (b_pending b) (uo_symbol o) (p + order_effect o)
                 | None => sset (b_pending b) (uo_symbol o) (order_effect o)
                 end).

(* -> new broker, event, orders handed to the client's insert_order *)
Definition send_order (b : broker) (o : uorder F) : res (broker * order_event * list (uorder F)) :=
  match gate b o with
  | GPanic s => Panic s
  | GInvalid => Ok (b, OrderInvalid o, [])
  | GForward => Ok (add_pending b o, OrderSentToExchange o, [o])
  end.

Fixpoint send_orders (b : broker) (os : list (uorder F))
  : res (broker * list order_event * list (uorder F)) :=
  match os with
  | [] => Ok (b, [], [])
  | o :: r =>
      bind (send_order b o) (fun '(b1, ev, fw) =>
      bind (send_orders b1 r) (fun '(b2, evs, fws) => Ok (b2, ev :: evs, fw ++ fws)))
  end.

(* ---- liquidation ------------------------------------------------------------------------------ *)
(* the loop over positions: (remaining amount, sell orders so far in reverse) *)
Fixpoint liq_loop (b : broker) (ord : list string) (total_sold : F) (acc : list (uorder F))
  : res (F * list (uorder F)) :=
  match ord with
  | [] => Ok (total_sold, rev acc)
  | ticker :: rest =>
      let pv := match position_value b ticker with Some v => v | None => fzero end in
      if pv <=? total_sold then
        match position_qty b ticker with
        | Some qty => liq_loop b rest (total_sold - pv) (mkUOrder MarketSell ticker qty None :: acc)
        | None => liq_loop b rest total_sold acc
        end
      else
        match sget (b_quotes b) ticker with
        | None => Panic "withdraw_cash_with_liquidation: get_quote(..).unwrap()"
        | Some q =>
            let price := q_bid q in
            let shares := if q_liq_ceil_precedence qk then total_sold / fceil price
                          else fceil (total_sold / price) in
            Ok (fzero, rev (mkUOrder MarketSell ticker shares None :: acc))
        end
  end.

Definition liq_failure (b : broker) (c : F) : broker :=
  if q_liq_fail_debit qk then fst (debit b c) else b.

Definition withdraw_cash_with_liquidation (b : broker) (c : F) (ord : list string)
  : res (broker * cash_event * list (uorder F)) :=
  if negb (is_order_of ord (b_holdings b)) then BadOracle else
  let value := liquidation_value b ord in
  if c >? value then Ok (liq_failure b c, WithdrawFailure c, [])
  else
    bind (liq_loop b ord c []) (fun '(total_sold, sells) =>
      if total_sold ==? fzero then
        bind (send_orders b sells) (fun '(b1, _, fw) => Ok (b1, WithdrawSuccess c, fw))
      else Ok (liq_failure b c, WithdrawFailure c, [])).

Definition rebalance_cash (b : broker) (ord : list string) : res (broker * list (uorder F)) :=
  if b_cash b <? fzero then
    let shortfall := b_cash b * (- fone) in
    let plus_buffer := shortfall + fofZ 1000 in
    bind (withdraw_cash_with_liquidation b plus_buffer ord) (fun '(b1, ev, fw) =>
      match ev with
      | WithdrawFailure _ => Ok (set_failed b1, fw)
      | _ => Ok (b1, fw)
      end)
  else Ok (b, []).

(* ---- Update::check ---------------------------------------------------------------------------- *)
Definition book_trade (b : broker) (t : trade F) : broker :=
  let b1 := match t_side t with Buy => debit_force b (t_value t) | Sell => credit b (t_value t) end in
  let curr := match sget (b_holdings b1) (t_symbol t) with Some x => x | None => fzero end in
  let updated := match t_side t with Buy => curr + t_quantity t | Sell => curr - t_quantity t end in
  let h := if updated ==? fzero then sremove (b_holdings b1) (t_symbol t)
           else sset (b_holdings b1) (t_symbol t) updated in
  let pend := match sget (b_pending b1) (t_symbol t) with Some x => x | None => fzero end in
  let upd_p := match t_side t with Buy => pend - t_quantity t | Sell => pend + t_quantity t end in
  let p := if upd_p ==? fzero then sremove (b_pending b1) (t_symbol t)
           else sset (b_pending b1) (t_symbol t) upd_p in
  mkBroker (b_cash b1) h p (b_quotes b1) (b_log b1 ++ [t]) (b_costs b1) (b_failed b1).

Definition update_quotes (b : broker) (row : list (string * quote F)) : broker :=
  mkBroker (b_cash b) (b_holdings b) (b_pending b)
           (fold_left (fun m kq => sset m (fst kq) (snd kq)) row (b_quotes b))
           (b_log b) (b_costs b) (b_failed b).

(* [resp]: Some (trades of the tick, row fetched afterwards) when both client calls succeeded;
   [ord]: iteration order of the holdings after the trades are booked *)
Definition check (b : broker) (resp : option (list (trade F) * list (string * quote F)))
  (ord : list string) : res (broker * list (uorder F)) :=
  let b1 := match resp with
            | Some (trades, row) => fold_left book_trade trades (update_quotes b row)
            | None => b
            end in
  if b_cash b1 <? fzero then rebalance_cash b1 ord else Ok (b1, []).

(* ---- diff_brkr_against_target_weights ----------------------------------------------------------- *)
Definition clamp0 (x : F) : F := if fzero <? x then x else fzero.       (* f64::max(x, 0.0) *)

Definition required_shares (b : broker) (diff_val : F) (q : quote F) : F :=
  if diff_val <? fzero then
    let c := trade_impact_total (b_costs b) (fabs diff_val) (q_bid q) false in
    let total := ffloor (fst c / snd c) in
    - (if q_diff_direction_flip qk then total else clamp0 total)
  else
    let c := trade_impact_total (b_costs b) (fabs diff_val) (q_ask q) true in
    let total := ffloor (fst c / snd c) in
    if q_diff_direction_flip qk then total else clamp0 total.

(* the loop over target_weights.keys(): (buys, sells) in iteration order *)
Fixpoint diff_loop (b : broker) (total : F) (ws : list (string * F))
  : list (uorder F) * list (uorder F) :=
  match ws with
  | [] => ([], [])
  | (sym, w) :: rest =>
      let curr := match position_value b sym with Some v => v | None => fzero end in
      let diff_val := total * w - curr in
      if diff_val ==? fzero then
        (if q_diff_break qk then ([], []) else diff_loop b total rest)
      else
        let '(buys, sells) := diff_loop b total rest in
        match sget (b_quotes b) sym with
        | None => (buys, sells)
        | Some q =>
            let r := required_shares b diff_val q in
            if negb (r ==? fzero) then
              if r >? fzero then (mkUOrder MarketBuy sym r None :: buys, sells)
              else (buys, mkUOrder MarketSell sym (fabs r) None :: sells)
            else (buys, sells)
        end
  end.

(* [ws]: the target weights in the iteration order of the map; [ord]: holdings iteration order *)
Definition diff_orders (b : broker) (ws : list (string * F)) (ord : list string)
  : res (list (uorder F)) :=
  if negb (is_order_of ord (b_holdings b)) then BadOracle else
  if negb (snodup (map fst ws)) then BadOracle else
  let total := liquidation_value b ord in
  if total ==? fzero then Panic "diff: portfolio with zero value"
  else let '(buys, sells) := diff_loop b total ws in Ok (sells ++ buys).

(* what reaches the exchange of the orders handed to the client: an eager client acts at the call;
   a lazy one (an `async fn`) acts when its future is polled, and the defective send_order dropped
   the future unpolled *)
Definition delivered (lazy : bool) (fw : list (uorder F)) : list (uorder F) :=
  if lazy && q_send_dropped_future qk then [] else fw.

(* ---- histories ---------------------------------------------------------------------------------- *)
Inductive bop :=
| OpDeposit (c : F)
| OpWithdraw (c : F)
| OpLiq (c : F) (ord : list string)
| OpSend (o : uorder F)
| OpCheck (resp : option (list (trade F) * list (string * quote F))) (ord : list string).

Inductive bev := EvCash (e : cash_event) | EvOrder (e : order_event) | EvNone.

(* -> new state, event, orders handed to the client *)
Definition bstep (b : broker) (o : bop) : res (broker * bev * list (uorder F)) :=
  match o with
  | OpDeposit c => let '(b', e) := deposit_cash b c in Ok (b', EvCash e, [])
  | OpWithdraw c => let '(b', e) := withdraw_cash b c in Ok (b', EvCash e, [])
  | OpLiq c ord => bind (withdraw_cash_with_liquidation b c ord) (fun '(b', e, fw) => Ok (b', EvCash e, fw))
  | OpSend x => bind (send_order b x) (fun '(b', e, fw) => Ok (b', EvOrder e, fw))
  | OpCheck resp ord => bind (check b resp ord) (fun '(b', fw) => Ok (b', EvNone, fw))
  end.

Fixpoint brun (b : broker) (ops : list bop) : res (broker * list (bev * list (uorder F))) :=
  match ops with
  | [] => Ok (b, [])
  | o :: r =>
      bind (bstep b o) (fun '(b1, e, fw) =>
      bind (brun b1 r) (fun '(b2, evs) => Ok (b2, (e, fw) :: evs)))
  end.

Definition broker_init (costs : list (cost F)) (quotes : smap (quote F)) : broker :=
  mkBroker fzero [] [] quotes [] costs false.

End Broker.

Arguments broker F : clear implicits.
Arguments cash_event F : clear implicits.
Arguments order_event F : clear implicits.
Arguments bop F : clear implicits.
Arguments bev F : clear implicits.
