//! StaticWeightStrategy over UistBroker over the harness client over a real AppState (Uist).
use crate::comp_broker::*;
use crate::comp_perf::output_json;
use crate::util::*;
use alator::broker::{Portfolio, StrategySnapshot};
use alator::strategy::staticweight::{StaticWeightStrategy, StaticWeightStrategyBuilder};
use alator::strategy::StrategyEvent;
use rotala::exchange::uist_v1::{Order, UistQuote};
use serde_json::{json, Value};

type Strat = StaticWeightStrategy<UistQuote, Order, alator::broker::uist::UistBroker<crate::client::HClient>>;

fn snap_json(s: &StrategySnapshot) -> Value {
    json!({"date": *s.date, "value": fb(s.portfolio_value), "ncf": fb(s.net_cash_flow), "infl": fb(s.inflation)})
}

fn strat_snap(st: &mut Strat, rig: &Rig) -> Value {
    let cur = st.get_snapshot();
    let hist: Vec<Value> = st.get_history().iter().map(snap_json).collect();
    json!({
        "ncf": fb(cur.net_cash_flow),
        "history": hist,
        "broker": broker_snap(st.verif_brkr(), &rig.syms),
        "server": exch_snap_of(&rig.state, rig.id),
    })
}

fn ev_json(e: &StrategyEvent) -> Value {
    match e {
        StrategyEvent::WithdrawSuccess(x) => json!({"ev": "WithdrawSuccess", "x": fb(*x)}),
        StrategyEvent::WithdrawFailure(x) => json!({"ev": "WithdrawFailure", "x": fb(*x)}),
        StrategyEvent::DepositSuccess(x) => json!({"ev": "DepositSuccess", "x": fb(*x)}),
    }
}

pub fn run(sc: &Value) -> Value {
    let (rig, brkr) = make_rig(sc);
    let (weights, weights_order) = weights_of(&sc["weights"]);
    let mut st: Strat = StaticWeightStrategyBuilder::new().with_brkr(brkr).with_weights(weights).default();
    let mut snaps = vec![strat_snap(&mut st, &rig)];
    let mut results = Vec::new();
    for op in arr(&sc["ops"]) {
        rig.log.borrow_mut().clear();
        let r = catch(|| match s(&op["op"]).as_str() {
            "init" => {
                st.init(&bf(&op["x"]));
                Value::Null
            }
            "update" => {
                drive(st.update());
                Value::Null
            }
            "run" => {
                drive(st.run());
                Value::Null
            }
            "withdraw" => ev_json(&st.withdraw_cash(&bf(&op["x"]))),
            "withdraw_liq" => ev_json(&st.withdraw_cash_with_liquidation(&bf(&op["x"]))),
            "perf" => {
                let o = st.perf(alator::perf::Frequency::Daily);
                output_json(&o)
            }
            _ => panic!("bad op"),
        });
        let calls = rig.log.borrow().clone();
        match r {
            Ok(v) => {
                results.push(json!({"res": v, "calls": calls}));
                snaps.push(strat_snap(&mut st, &rig));
            }
            Err(m) => {
                results.push(json!({"panic": m, "calls": calls}));
                break;
            }
        }
    }
    let _ = st.verif_brkr().get_cash_balance();
    json!({ "snaps": snaps, "results": results, "weights_order": weights_order })
}
