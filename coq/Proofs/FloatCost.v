(* FloatCost.v — C13 (cost-aware sizing never overspends) at the IEEE binary64 instance for whole-unit costs:
   per-share and flat costs that are integer-valued floats, an integer budget and price, everything below 2^53.
   Percentage costs multiply the budget by 1 - p, which is not integral; they stay over the reals (Props/C13.v).
   No rounding gap: every float computed is the float of an integer, and the inequality holds in exact integers.
   Layout: (K1) [div_floor_int]: float_floor (a / b) on integer-valued floats, |a| < 2^53, 0 < b <= 2^1022, is the
   float of the Z quotient a / b (the mathematical floor). (K2) [trade_impact_total_int]: the net budget and the net
   price are the floats of zb - sum flat and zp +/- sum per-share. (K3) [sized_shares_int], [trade_costs_int],
   [no_overspend_float]; the negative net budget [sized_shares_negative]; directions. (K4) kernel-evaluated
   examples. *)
From Coq Require Import ZArith NArith List Bool String Floats Reals Lra Lia.
From Flocq Require Import Core.Raux Core.Generic_fmt Core.FLT Core.Round_NE.
From Flocq Require Import Relative.
From Flocq Require Import IEEE754.BinarySingleNaN IEEE754.PrimFloat.
From Alator Require Import Model.Num Model.Quirks Model.Cost Model.Exchange Model.Uist Model.Broker.
From Alator Require Import Proofs.FloatExact Proofs.FloatCash Proofs.FloatWorth Proofs.FloatLiq.
Import ListNotations.

Local Existing Instance PrimFloat.Hprec.
Local Existing Instance PrimFloat.Hmax.

(* ------------------------------------------------------------------------------------------- *)
(* (K1) integer division through floats, rounding down                                           *)

Lemma Zfloor_div_IZR a b : (0 < b)%Z -> Zfloor (IZR a / IZR b) = (a / b)%Z.
Proof.
  intros Hb.
  pose proof (Z.div_mod a b ltac:(lia)) as E. pose proof (Z.mod_pos_bound a b Hb) as M.
  assert (Pb : (0 < IZR b)%R) by (apply IZR_lt; exact Hb).
  apply Zfloor_imp. rewrite plus_IZR. split.
  - apply Rmult_le_reg_r with (IZR b); [exact Pb |].
    unfold Rdiv. rewrite Rmult_assoc, Rinv_l, Rmult_1_r by lra.
    rewrite <- mult_IZR. apply IZR_le. nia.
  - apply Rmult_lt_reg_r with (IZR b); [exact Pb |].
    unfold Rdiv. rewrite Rmult_assoc, Rinv_l, Rmult_1_r by lra.
    rewrite <- (plus_IZR _ 1), <- mult_IZR. apply IZR_lt. nia.
Qed.

(* the rounded quotient of two integers, |a| < 2^53, 0 < b, stays strictly between the integers around a / b, and
   is a / b itself when b divides a: its floor is the Z quotient *)
Lemma round_div_floor a b : (Z.abs a < 2 ^ 53)%Z -> (0 < b <= 2 ^ 1022)%Z ->
  let r := round Zaux.radix2 (SpecFloat.fexp prec emax) (round_mode mode_NE) (IZR a / IZR b) in
  Zfloor r = (a / b)%Z /\ (Rabs r <= IZR (Z.abs a))%R.
Proof.
  intros Ha [Hb Hb2] r.
  assert (Pb : (0 < IZR b)%R) by (apply IZR_lt; exact Hb).
  assert (B1 : (1 <= IZR b)%R) by (apply IZR_le; lia).
  assert (Pinv : (0 < / IZR b)%R) by (apply Rinv_0_lt_compat; exact Pb).
  split.
  2:{ unfold r. apply abs_round_le_generic; [typeclasses eauto | apply valid_rnd_round_mode | |].
      - apply int_generic. lia.
      - rewrite abs_IZR. unfold Rdiv. rewrite Rabs_mult, (Rabs_pos_eq (/ IZR b)) by lra.
        rewrite <- (Rmult_1_r (Rabs (IZR a))) at 2.
        apply Rmult_le_compat_l; [apply Rabs_pos |].
        rewrite <- Rinv_1. apply Rinv_le; lra. }
  pose proof (Z.div_mod a b ltac:(lia)) as E.
  pose proof (Z.mod_pos_bound a b Hb) as M.
  set (n := (a / b)%Z) in *. set (m := (a mod b)%Z) in *.
  assert (X : (IZR a / IZR b = IZR n + IZR m / IZR b)%R).
  { rewrite E, plus_IZR, mult_IZR. field. lra. }
  destruct (Z.eq_dec m 0) as [M0 | M0].
  - (* exact *)
    assert (Xn : (IZR a / IZR b = IZR n)%R) by (rewrite X, M0; unfold Rdiv; lra).
    assert (Hn : (Z.abs n < 2 ^ 53)%Z) by nia.
    unfold r. rewrite Xn, (round_int n Hn). apply Zfloor_IZR.
  - (* inexact: at least 1 / b away from n and from n + 1 *)
    assert (Hm1 : (1 <= m <= b - 1)%Z) by lia.
    assert (Lo : (IZR n + / IZR b <= IZR a / IZR b)%R).
    { rewrite X. apply Rplus_le_compat_l. unfold Rdiv. rewrite <- (Rmult_1_l (/ IZR b)) at 1.
      apply Rmult_le_compat_r; [left; exact Pinv | apply IZR_le; lia]. }
    assert (Hi : (IZR a / IZR b <= IZR n + 1 - / IZR b)%R).
    { rewrite X. replace (IZR n + 1 - / IZR b)%R with (IZR n + (IZR b - 1) / IZR b)%R by (field; lra).
      apply Rplus_le_compat_l. unfold Rdiv.
      apply Rmult_le_compat_r; [left; exact Pinv |].
      rewrite <- minus_IZR. apply IZR_le. lia. }
    assert (Na : (a <> 0)%Z) by (intros ->; apply M0; apply Z.mod_0_l; lia).
    assert (Qabs : (Rabs (IZR a / IZR b) = IZR (Z.abs a) / IZR b)%R).
    { unfold Rdiv. rewrite Rabs_mult, (Rabs_pos_eq (/ IZR b)), abs_IZR by lra. reflexivity. }
    assert (A1 : (1 <= IZR (Z.abs a))%R) by (apply IZR_le; lia).
    (* relative error of rounding to nearest *)
    assert (Err : (Rabs (r - IZR a / IZR b) <= / 2 * bpow Zaux.radix2 (- 53 + 1) * Rabs (IZR a / IZR b))%R).
    { unfold r. change (SpecFloat.fexp prec emax) with (FLT_exp (-1074) 53).
      apply (relative_error_N_FLT Zaux.radix2 (-1074) 53 ltac:(lia) (fun x => negb (Z.even x))).
      rewrite Qabs.
      apply Rle_trans with (/ IZR b)%R.
      - (* the quotient is at least 1 / b >= 2^-1022 in magnitude: in the normal range *)
        change (-1074 + 53 - 1)%Z with (Z.opp 1022). rewrite bpow_opp.
        apply Rinv_le; [exact Pb |]. rewrite <- (IZR_pow2 1022) by lia. apply IZR_le. exact Hb2.
      - unfold Rdiv. rewrite <- (Rmult_1_l (/ IZR b)) at 1.
        apply Rmult_le_compat_r; [left; exact Pinv | exact A1]. }
    rewrite Qabs in Err.
    assert (Small : (/ 2 * bpow Zaux.radix2 (- 53 + 1) * (IZR (Z.abs a) / IZR b) < / IZR b)%R).
    { replace (/ 2 * bpow Zaux.radix2 (- 53 + 1))%R with (/ IZR (2 ^ 53))%R.
      - unfold Rdiv. rewrite <- Rmult_assoc. rewrite <- (Rmult_1_l (/ IZR b)) at 2.
        apply Rmult_lt_compat_r; [exact Pinv |].
        apply Rmult_lt_reg_l with (IZR (2 ^ 53)); [apply IZR_lt; lia |].
        rewrite <- Rmult_assoc, Rinv_r, Rmult_1_l, Rmult_1_r by (apply not_0_IZR; lia).
        apply IZR_lt. exact Ha.
      - rewrite (IZR_pow2 53) by lia. rewrite <- bpow_opp.
        change (/ 2)%R with (bpow Zaux.radix2 (-1)). rewrite <- bpow_plus. reflexivity. }
    apply Rabs_le_inv in Err.
    apply Zfloor_imp. rewrite plus_IZR. lra.
Qed.

(* (K1) for integers |a| < 2^53, 0 < b <= 2^1022: floor (a / b) computed in binary64 is the float of the Z
   quotient a / b, which is the mathematical floor of the real quotient *)
Theorem div_floor_int x y a b : int_float x a -> int_float y b ->
  (Z.abs a < 2 ^ 53)%Z -> (0 < b <= 2 ^ 1022)%Z ->
  int_float (float_floor (PrimFloat.div x y)) (a / b) /\ (a / b)%Z = Zfloor (IZR a / IZR b).
Proof.
  intros [Fx Rx] [Fy Ry] Ha Hb.
  split; [| symmetry; apply Zfloor_div_IZR; apply Hb].
  destruct (round_div_floor a b Ha Hb) as [C R1].
  assert (Ny : B2R (Prim2B y) <> 0%R) by (rewrite Ry; apply not_0_IZR; lia).
  pose proof (Bdiv_correct prec emax _ _ mode_NE (Prim2B x) (Prim2B y) Ny) as D.
  rewrite Rx, Ry in D.
  rewrite Rlt_bool_true in D.
  - destruct D as (D1 & D2 & _).
    assert (Fd : ffin (PrimFloat.div x y)) by (unfold ffin; rewrite div_equiv, D2; exact Fx).
    pose proof (float_floor_int _ Fd) as H. unfold FR in H. rewrite div_equiv, D1, C in H. exact H.
  - apply Rle_lt_trans with (1 := R1). rewrite <- (Rabs_pos_eq (IZR (Z.abs a))) by (apply IZR_le; lia).
    apply int_below_emax. lia.
Qed.

(* the form asked for: 0 <= a < 2^53 *)
Corollary div_floor_int_nonneg x y a b : int_float x a -> int_float y b ->
  (0 <= a < 2 ^ 53)%Z -> (0 < b <= 2 ^ 1022)%Z ->
  int_float (float_floor (PrimFloat.div x y)) (a / b) /\ (a / b)%Z = Zfloor (IZR a / IZR b) /\
  (0 <= a / b)%Z /\ (a / b * b <= a < (a / b + 1) * b)%Z.
Proof.
  intros Hx Hy Ha Hb. destruct (div_floor_int x y a b Hx Hy ltac:(lia) Hb) as [H1 H2].
  split; [exact H1 |]. split; [exact H2 |].
  pose proof (Z.div_mod a b ltac:(lia)) as E. pose proof (Z.mod_pos_bound a b ltac:(lia)) as M.
  split; [apply Z.div_pos; lia | nia].
Qed.


(* ------------------------------------------------------------------------------------------- *)
(* the integer reading of a cost list                                                            *)

(* a per-share or flat cost whose parameter is the float of a non-negative integer; no percentage costs *)
Definition cost_reads (c : cost float) (zc : cost Z) : Prop :=
  match c, zc with
  | PerShare v, PerShare z => int_float v z /\ (0 <= z)%Z
  | Flat v, Flat z => int_float v z /\ (0 <= z)%Z
  | _, _ => False
  end.

Definition zc_ps (zc : cost Z) : Z := match zc with PerShare z => z | _ => 0%Z end.
Definition zc_flat (zc : cost Z) : Z := match zc with Flat z => z | _ => 0%Z end.

Definition zsum_ps (zcs : list (cost Z)) : Z := fold_right (fun zc acc => (zc_ps zc + acc)%Z) 0%Z zcs.
Definition zsum_flat (zcs : list (cost Z)) : Z := fold_right (fun zc acc => (zc_flat zc + acc)%Z) 0%Z zcs.

Lemma cost_reads_nonneg c zc : cost_reads c zc -> (0 <= zc_ps zc)%Z /\ (0 <= zc_flat zc)%Z.
Proof. destruct c, zc; cbn; intros H; try contradiction; lia. Qed.

Lemma zsums_nonneg cs zcs : Forall2 cost_reads cs zcs -> (0 <= zsum_ps zcs)%Z /\ (0 <= zsum_flat zcs)%Z.
Proof.
  induction 1 as [| c zc cs zcs Hc _ IH]; cbn [zsum_ps zsum_flat fold_right]; [lia |].
  fold (zsum_ps zcs). fold (zsum_flat zcs). pose proof (cost_reads_nonneg c zc Hc). lia.
Qed.

Section AtFloatCost.
Context (tbl : libm_table).
Let NFl : Num float := FloatNum tbl.
Local Existing Instance NFl.
Local Open Scope num_scope.

(* ------------------------------------------------------------------------------------------- *)
(* (K2) the net budget and the net price                                                         *)

(* the signed per-share adjustment: + for buys, - for sells *)
Definition zps_signed (is_buy : bool) (z : Z) : Z := if is_buy then z else (- z)%Z.

(* at every point of the fold: the budget only decreases towards zb - sum flat, the price moves monotonically
   towards zp +/- sum per-share, so bounds on the start and on the end bound every intermediate value *)
Lemma trade_impact_total_gen is_buy cs zcs : Forall2 cost_reads cs zcs ->
  forall (budget price : float) zb zp, int_float budget zb -> int_float price zp ->
  (zb < 2 ^ 53)%Z -> (- 2 ^ 53 < zb - zsum_flat zcs)%Z ->
  (Z.abs zp < 2 ^ 53)%Z -> (Z.abs (zp + zps_signed is_buy (zsum_ps zcs)) < 2 ^ 53)%Z ->
  int_float (fst (trade_impact_total cs budget price is_buy)) (zb - zsum_flat zcs) /\
  int_float (snd (trade_impact_total cs budget price is_buy)) (zp + zps_signed is_buy (zsum_ps zcs)).
Proof.
  unfold trade_impact_total.
  induction 1 as [| c zc cs zcs Hc Hcs IH]; intros budget price zb zp Hb Hp B1 B2 P1 P2;
    cbn [fold_left zsum_ps zsum_flat fold_right fst snd] in *.
  - replace (zb - 0)%Z with zb by lia.
    replace (zp + zps_signed is_buy 0)%Z with zp by (destruct is_buy; cbn; lia).
    split; assumption.
  - fold (zsum_ps zcs) in *. fold (zsum_flat zcs) in *.
    destruct (zsums_nonneg cs zcs Hcs) as [Sp Sf].
    destruct c as [v | p | v], zc as [z | z | z]; cbn [cost_reads] in Hc; try contradiction;
      destruct Hc as [Hv Hz]; cbn [trade_impact zc_ps zc_flat fst snd] in *.
    + (* per share *)
      replace (zb - (0 + zsum_flat zcs))%Z with (zb - zsum_flat zcs)%Z in * by lia.
      destruct is_buy; cbn [zps_signed] in *.
      * replace (zp + (z + zsum_ps zcs))%Z with ((zp + z) + zsum_ps zcs)%Z in * by lia.
        apply IH; try assumption; try lia.
        change (@fadd float NFl) with PrimFloat.add. apply add_int_exact_strong; [exact Hp | exact Hv | lia].
      * replace (zp + - (z + zsum_ps zcs))%Z with ((zp - z) + - zsum_ps zcs)%Z in * by lia.
        apply IH; try assumption; try lia.
        change (@fsub float NFl) with PrimFloat.sub. apply sub_int_exact_strong; [exact Hp | exact Hv | lia].
    + (* flat *)
      replace (zb - (z + zsum_flat zcs))%Z with ((zb - z) - zsum_flat zcs)%Z in * by lia.
      replace (0 + zsum_ps zcs)%Z with (zsum_ps zcs) in * by lia.
      apply IH; try assumption; try lia.
      change (@fsub float NFl) with PrimFloat.sub. apply sub_int_exact_strong; [exact Hb | exact Hv | lia].
Qed.

(* (K2) for a gross budget 0 <= zb < 2^53 and a gross price zp >= 1, flat costs summing to less than 2^53
   (whatever the sign of what is left), per-share costs with zp + sum < 2^53 *)
Theorem trade_impact_total_int cs zcs (budget price : float) zb zp :
  Forall2 cost_reads cs zcs -> int_float budget zb -> int_float price zp ->
  (0 <= zb < 2 ^ 53)%Z -> (zsum_flat zcs < 2 ^ 53)%Z -> (1 <= zp)%Z -> (zp + zsum_ps zcs < 2 ^ 53)%Z ->
  int_float (fst (trade_impact_total cs budget price true)) (zb - zsum_flat zcs) /\
  int_float (snd (trade_impact_total cs budget price true)) (zp + zsum_ps zcs) /\
  int_float (fst (trade_impact_total cs budget price false)) (zb - zsum_flat zcs) /\
  int_float (snd (trade_impact_total cs budget price false)) (zp - zsum_ps zcs).
Proof.
  intros Hcs Hb Hp Bb Bf P1 Pp. destruct (zsums_nonneg cs zcs Hcs) as [Sp Sf].
  destruct (trade_impact_total_gen true cs zcs Hcs budget price zb zp Hb Hp) as [T1 T2];
    cbn [zps_signed]; try lia.
  destruct (trade_impact_total_gen false cs zcs Hcs budget price zb zp Hb Hp) as [T3 T4];
    cbn [zps_signed]; try lia.
  cbn [zps_signed] in *. replace (zp + - zsum_ps zcs)%Z with (zp - zsum_ps zcs)%Z in T4 by lia.
  split; [exact T1 |]. split; [exact T2 |]. split; [exact T3 | exact T4].
Qed.


(* ------------------------------------------------------------------------------------------- *)
(* (K3) sizing, fees, no overspend                                                               *)

(* the share count, for any sign of the net budget: the Z quotient, which rounds towards minus infinity *)
Theorem sized_shares_int cs zcs (budget price : float) zb zp :
  Forall2 cost_reads cs zcs -> int_float budget zb -> int_float price zp ->
  (0 <= zb < 2 ^ 53)%Z -> (zsum_flat zcs < 2 ^ 53)%Z -> (1 <= zp)%Z -> (zp + zsum_ps zcs < 2 ^ 53)%Z ->
  int_float (sized_shares cs budget price true) ((zb - zsum_flat zcs) / (zp + zsum_ps zcs)) /\
  ((zb - zsum_flat zcs) / (zp + zsum_ps zcs))%Z = Zfloor (IZR (zb - zsum_flat zcs) / IZR (zp + zsum_ps zcs)).
Proof.
  intros Hcs Hb Hp Bb Bf P1 Pp. destruct (zsums_nonneg cs zcs Hcs) as [Sp Sf].
  destruct (trade_impact_total_int cs zcs budget price zb zp Hcs Hb Hp Bb Bf P1 Pp) as (T1 & T2 & _).
  unfold sized_shares. cbv zeta.
  change (@ffloor float NFl) with float_floor. change (@fdiv float NFl) with PrimFloat.div.
  apply div_floor_int; [exact T1 | exact T2 | lia |].
  split; [lia |]. apply Z.le_trans with (2 ^ 53)%Z; [lia | apply Z.pow_le_mono_r; lia].
Qed.

(* a negative net budget (flat fees above the budget): the share count is the float of a negative integer, at most
   -1; the broker's clamp [clamp0] (f64::max(x, 0.0)) turns it into 0.0: nothing is ordered *)
Theorem sized_shares_negative cs zcs (budget price : float) zb zp :
  Forall2 cost_reads cs zcs -> int_float budget zb -> int_float price zp ->
  (0 <= zb < 2 ^ 53)%Z -> (zsum_flat zcs < 2 ^ 53)%Z -> (1 <= zp)%Z -> (zp + zsum_ps zcs < 2 ^ 53)%Z ->
  (zb - zsum_flat zcs < 0)%Z ->
  exists zn, int_float (sized_shares cs budget price true) zn /\ (zn <= -1)%Z /\
             clamp0 (sized_shares cs budget price true) = 0%float.
Proof.
  intros Hcs Hb Hp Bb Bf P1 Pp Neg. destruct (zsums_nonneg cs zcs Hcs) as [Sp Sf].
  destruct (sized_shares_int cs zcs budget price zb zp Hcs Hb Hp Bb Bf P1 Pp) as [Hn _].
  set (zn := ((zb - zsum_flat zcs) / (zp + zsum_ps zcs))%Z) in *.
  assert (Hzn : (zn <= -1)%Z).
  { pose proof (Z.div_mod (zb - zsum_flat zcs) (zp + zsum_ps zcs) ltac:(lia)) as E.
    pose proof (Z.mod_pos_bound (zb - zsum_flat zcs) (zp + zsum_ps zcs) ltac:(lia)) as M. fold zn in E. nia. }
  exists zn. split; [exact Hn |]. split; [exact Hzn |].
  unfold clamp0. change (@fltb float NFl) with PrimFloat.ltb. change (@fzero float NFl) with 0%float.
  rewrite (int_float_ltb _ _ _ _ int_float_zero Hn).
  destruct (Z.ltb_spec 0 zn) as [L | _]; [lia | reflexivity].
Qed.

(* fees on a trade of zq >= 0 shares: additive, the float of zq * sum per-share + sum flat, from any accumulator *)
Lemma trade_costs_gen cs zcs (qty value : float) zq : Forall2 cost_reads cs zcs -> int_float qty zq -> (0 <= zq)%Z ->
  forall (acc : float) za, int_float acc za -> (0 <= za)%Z ->
  (za + (zq * zsum_ps zcs + zsum_flat zcs) < 2 ^ 53)%Z ->
  int_float (fold_left (fun a c => a + cost_calc c qty value) cs acc) (za + (zq * zsum_ps zcs + zsum_flat zcs)).
Proof.
  intros Hcs Hq Q0. induction Hcs as [| c zc cs zcs Hc Hcs IH]; intros acc za Ha A0 B;
    cbn [fold_left zsum_ps zsum_flat fold_right] in *.
  - replace (za + (zq * 0 + 0))%Z with za by lia. exact Ha.
  - fold (zsum_ps zcs) in *. fold (zsum_flat zcs) in *.
    destruct (zsums_nonneg cs zcs Hcs) as [Sp Sf].
    destruct c as [v | p | v], zc as [z | z | z]; cbn [cost_reads] in Hc; try contradiction;
      destruct Hc as [Hv Hz]; cbn [cost_calc zc_ps zc_flat] in *.
    + replace (za + (zq * (z + zsum_ps zcs) + (0 + zsum_flat zcs)))%Z
        with ((za + z * zq) + (zq * zsum_ps zcs + zsum_flat zcs))%Z in * by lia.
      apply IH; [| nia | exact B].
      change (@fadd float NFl) with PrimFloat.add. change (@fmul float NFl) with PrimFloat.mul.
      apply add_int_exact_strong; [exact Ha | | nia].
      apply mul_int_exact_strong; [exact Hv | exact Hq | nia].
    + replace (za + (zq * (0 + zsum_ps zcs) + (z + zsum_flat zcs)))%Z
        with ((za + z) + (zq * zsum_ps zcs + zsum_flat zcs))%Z in * by lia.
      apply IH; [| lia | exact B].
      change (@fadd float NFl) with PrimFloat.add.
      apply add_int_exact_strong; [exact Ha | exact Hv | nia].
Qed.

(* fees are additive: per-share x quantity + flat per trade; the value of the trade is not used (no percentage) *)
Theorem trade_costs_int cs zcs (qty value : float) zq :
  Forall2 cost_reads cs zcs -> int_float qty zq -> (0 <= zq)%Z ->
  (zq * zsum_ps zcs + zsum_flat zcs < 2 ^ 53)%Z ->
  int_float (calculate_trade_costs cs qty value) (zq * zsum_ps zcs + zsum_flat zcs).
Proof.
  intros Hcs Hq Q0 B. unfold calculate_trade_costs.
  pose proof (trade_costs_gen cs zcs qty value zq Hcs Hq Q0 fzero 0%Z int_float_zero ltac:(lia) ltac:(lia)) as H.
  cbn [Z.add] in H. exact H.
Qed.

(* (K3) for a non-negative net budget: the share count, the value of the trade, the fees and the total outlay,
   all computed in binary64, are the floats of the integers zn, zn * zp, zn * sum ps + sum flat and their sum;
   the outlay is at most the gross budget in exact integers and for the float comparison; one more share
   would overspend *)
Theorem no_overspend_float cs zcs (budget price : float) zb zp :
  Forall2 cost_reads cs zcs -> int_float budget zb -> int_float price zp ->
  (0 <= zb < 2 ^ 53)%Z -> (1 <= zp)%Z -> (zp + zsum_ps zcs < 2 ^ 53)%Z ->
  (0 <= zb - zsum_flat zcs)%Z ->
  let n := sized_shares cs budget price true in
  let zn := ((zb - zsum_flat zcs) / (zp + zsum_ps zcs))%Z in
  int_float n zn /\ (0 <= zn)%Z /\
  int_float (n * price)%num (zn * zp) /\
  int_float (calculate_trade_costs cs n (n * price)) (zn * zsum_ps zcs + zsum_flat zcs) /\
  int_float (n * price + calculate_trade_costs cs n (n * price))%num (zn * zp + (zn * zsum_ps zcs + zsum_flat zcs)) /\
  (zn * zp + (zn * zsum_ps zcs + zsum_flat zcs) <= zb)%Z /\
  (n * price + calculate_trade_costs cs n (n * price) <=? budget) = true /\
  (zb < (zn + 1) * zp + ((zn + 1) * zsum_ps zcs + zsum_flat zcs))%Z.
Proof.
  intros Hcs Hb Hp Bb P1 Pp NB n zn. destruct (zsums_nonneg cs zcs Hcs) as [Sp Sf].
  assert (Bf : (zsum_flat zcs < 2 ^ 53)%Z) by lia.
  destruct (sized_shares_int cs zcs budget price zb zp Hcs Hb Hp Bb Bf P1 Pp) as [Hn _].
  fold n in Hn. fold zn in Hn.
  pose proof (Z.div_mod (zb - zsum_flat zcs) (zp + zsum_ps zcs) ltac:(lia)) as E.
  pose proof (Z.mod_pos_bound (zb - zsum_flat zcs) (zp + zsum_ps zcs) ltac:(lia)) as M. fold zn in E.
  assert (N0 : (0 <= zn)%Z) by (apply Z.div_pos; lia).
  assert (Key : (zn * zp + (zn * zsum_ps zcs + zsum_flat zcs) <= zb)%Z) by nia.
  assert (V0 : (0 <= zn * zp)%Z) by nia.
  assert (C0 : (0 <= zn * zsum_ps zcs)%Z) by nia.
  assert (Hv : int_float (n * price)%num (zn * zp)).
  { change (@fmul float NFl) with PrimFloat.mul. apply mul_int_exact_strong; [exact Hn | exact Hp | lia]. }
  assert (Hc : int_float (calculate_trade_costs cs n (n * price)) (zn * zsum_ps zcs + zsum_flat zcs)).
  { apply trade_costs_int; [exact Hcs | exact Hn | exact N0 | lia]. }
  assert (Ht : int_float (n * price + calculate_trade_costs cs n (n * price))%num
                         (zn * zp + (zn * zsum_ps zcs + zsum_flat zcs))).
  { change (@fadd float NFl) with PrimFloat.add. apply add_int_exact_strong; [exact Hv | exact Hc | lia]. }
  split; [exact Hn |]. split; [exact N0 |]. split; [exact Hv |]. split; [exact Hc |]. split; [exact Ht |].
  split; [exact Key |]. split; [| nia].
  change (@fleb float NFl) with PrimFloat.leb. rewrite (int_float_leb _ _ _ _ Ht Hb).
  apply Z.leb_le. exact Key.
Qed.

(* directions: the net price is at least the gross price for buys, at most for sells; the net budget is at most
   the gross budget — as integers and as float comparisons *)
Theorem directions_float cs zcs (budget price : float) zb zp :
  Forall2 cost_reads cs zcs -> int_float budget zb -> int_float price zp ->
  (0 <= zb < 2 ^ 53)%Z -> (zsum_flat zcs < 2 ^ 53)%Z -> (1 <= zp)%Z -> (zp + zsum_ps zcs < 2 ^ 53)%Z ->
  (zp <= zp + zsum_ps zcs)%Z /\ (zp - zsum_ps zcs <= zp)%Z /\ (zb - zsum_flat zcs <= zb)%Z /\
  (price <=? snd (trade_impact_total cs budget price true)) = true /\
  (snd (trade_impact_total cs budget price false) <=? price) = true /\
  (fst (trade_impact_total cs budget price true) <=? budget) = true /\
  (fst (trade_impact_total cs budget price false) <=? budget) = true.
Proof.
  intros Hcs Hb Hp Bb Bf P1 Pp. destruct (zsums_nonneg cs zcs Hcs) as [Sp Sf].
  destruct (trade_impact_total_int cs zcs budget price zb zp Hcs Hb Hp Bb Bf P1 Pp) as (T1 & T2 & T3 & T4).
  change (@fleb float NFl) with PrimFloat.leb.
  rewrite (int_float_leb _ _ _ _ Hp T2), (int_float_leb _ _ _ _ T4 Hp),
          (int_float_leb _ _ _ _ T1 Hb), (int_float_leb _ _ _ _ T3 Hb).
  repeat split; try lia; apply Z.leb_le; lia.
Qed.

End AtFloatCost.

(* ------------------------------------------------------------------------------------------- *)
(* (K4) non-vacuity, evaluated by the kernel                                                      *)

Definition exk_cs : list (cost float) := [PerShare 1%float; Flat 25%float; Flat 5%float].
Definition exk_zcs : list (cost Z) := [PerShare 1%Z; Flat 25%Z; Flat 5%Z].

(* the float run: budget 10 000 at price 99 -> net budget 9 970, net price 100, 99 shares, value 9 801,
   fees 99 + 30 = 129, outlay 9 930 <= 10 000; 100 shares would cost 9 900 + 130 = 10 030 > 10 000 *)
Example exk_run :
  trade_impact_total (NF := FloatNum []) exk_cs 10000%float 99%float true = (9970%float, 100%float) /\
  sized_shares (NF := FloatNum []) exk_cs 10000%float 99%float true = 99%float /\
  PrimFloat.mul 99 99 = 9801%float /\
  calculate_trade_costs (NF := FloatNum []) exk_cs 99%float 9801%float = 129%float /\
  PrimFloat.add 9801 (calculate_trade_costs (NF := FloatNum []) exk_cs 99%float 9801%float) = 9930%float /\
  PrimFloat.leb 9930 10000 = true /\
  PrimFloat.add (PrimFloat.mul 100 99)
    (calculate_trade_costs (NF := FloatNum []) exk_cs 100%float (PrimFloat.mul 100 99)) = 10030%float /\
  PrimFloat.ltb 10000 10030 = true.
Proof. repeat split; vm_compute; reflexivity. Qed.

(* the integer side *)
Example exk_zrun :
  zsum_ps exk_zcs = 1%Z /\ zsum_flat exk_zcs = 30%Z /\
  ((10000 - zsum_flat exk_zcs) / (99 + zsum_ps exk_zcs) = 99)%Z /\
  (99 * 99 + (99 * zsum_ps exk_zcs + zsum_flat exk_zcs) = 9930)%Z /\
  (100 * 99 + (100 * zsum_ps exk_zcs + zsum_flat exk_zcs) = 10030)%Z.
Proof. vm_compute. repeat split; reflexivity. Qed.

(* the premises of the theorems hold at the example *)
Example exk_reads : Forall2 cost_reads exk_cs exk_zcs.
Proof.
  constructor; [split; [exact int_float_one | lia] |].
  constructor; [split; [exact (int_float_ofZ 25 eq_refl) | lia] |].
  constructor; [split; [exact (int_float_ofZ 5 eq_refl) | lia] | constructor].
Qed.

(* (K3) at the example: its conclusion, with the integer side computed *)
Example exk_theorem_instance :
  let n := sized_shares (NF := FloatNum []) exk_cs 10000%float 99%float true in
  int_float n 99 /\
  int_float (PrimFloat.mul n 99) 9801 /\
  int_float (calculate_trade_costs (NF := FloatNum []) exk_cs n (PrimFloat.mul n 99)) 129 /\
  int_float (PrimFloat.add (PrimFloat.mul n 99)
               (calculate_trade_costs (NF := FloatNum []) exk_cs n (PrimFloat.mul n 99))) 9930 /\
  (9930 <= 10000 < 10030)%Z.
Proof.
  pose proof (no_overspend_float [] exk_cs exk_zcs 10000%float 99%float 10000 99 exk_reads
                (int_float_ofZ 10000 eq_refl) (int_float_ofZ 99 eq_refl)
                ltac:(lia) ltac:(lia) ltac:(vm_compute; reflexivity) ltac:(vm_compute; discriminate)) as H.
  cbv zeta in H.
  replace ((10000 - zsum_flat exk_zcs) / (99 + zsum_ps exk_zcs))%Z with 99%Z in H by (vm_compute; reflexivity).
  replace (zsum_ps exk_zcs) with 1%Z in H by reflexivity.
  replace (zsum_flat exk_zcs) with 30%Z in H by reflexivity.
  destruct H as (H1 & _ & H2 & H3 & H4 & _).
  cbv zeta. split; [exact H1 |]. split; [exact H2 |]. split; [exact H3 |]. split; [exact H4 | lia].
Qed.

(* a negative net budget: flat fees 30 against a budget of 20 at price 99: floor (-10 / 100) = -1 share, which
   the broker's clamp turns into 0 *)
Example exk_negative :
  sized_shares (NF := FloatNum []) exk_cs 20%float 99%float true = (-1)%float /\
  clamp0 (NF := FloatNum []) (sized_shares (NF := FloatNum []) exk_cs 20%float 99%float true) = 0%float /\
  ((20 - 30) / (99 + 1) = -1)%Z.
Proof. repeat split; vm_compute; reflexivity. Qed.

(* percentage costs, where rounding does not matter: 10 % (the binary64 number nearest 0.1) of a budget of 1000 at
   price 9. Over the reals the slack is budget * p^2 = 10; in binary64 1 - 0.1 evaluates to the number nearest 0.9,
   the net budget to 900, 100 shares, value 900, fee 90, outlay 990 <= 1000 *)
Definition exp_tenth : float := 0x1.999999999999ap-4%float.
Example exp_percentage_wide :
  let cs := [PctOfValue exp_tenth] in
  trade_impact_total (NF := FloatNum []) cs 1000%float 9%float true = (900%float, 9%float) /\
  sized_shares (NF := FloatNum []) cs 1000%float 9%float true = 100%float /\
  calculate_trade_costs (NF := FloatNum []) cs 100%float 900%float = 90%float /\
  PrimFloat.add 900 90 = 990%float /\ PrimFloat.leb 990 1000 = true.
Proof. cbv zeta. repeat split; vm_compute; reflexivity. Qed.

(* percentage costs, where rounding matters: p = 2^-60 of a budget of 1000 at price 1. Over the reals the net
   budget is 1000 (1 - 2^-60) < 1000, so 999 shares are bought. In binary64 1 - 2^-60 evaluates to 1, the net
   budget to 1000 and 1000 shares are bought, worth the whole budget; the fee 1000 * 2^-60 is a positive binary64
   number, so the outlay exceeds the budget by it over the reals — while the binary64 sum value + fee evaluates
   to 1000 again and the comparison with the budget passes *)
Definition exp_tiny : float := 0x1p-60%float.
Example exp_percentage_tight :
  let cs := [PctOfValue exp_tiny] in
  PrimFloat.sub 1 exp_tiny = 1%float /\
  trade_impact_total (NF := FloatNum []) cs 1000%float 1%float true = (1000%float, 1%float) /\
  sized_shares (NF := FloatNum []) cs 1000%float 1%float true = 1000%float /\
  PrimFloat.mul 1000 1 = 1000%float /\
  calculate_trade_costs (NF := FloatNum []) cs 1000%float 1000%float = 0x1.f4p-51%float /\
  PrimFloat.ltb 0 (calculate_trade_costs (NF := FloatNum []) cs 1000%float 1000%float) = true /\
  PrimFloat.add 1000 (calculate_trade_costs (NF := FloatNum []) cs 1000%float 1000%float) = 1000%float /\
  PrimFloat.leb (PrimFloat.add 1000 (calculate_trade_costs (NF := FloatNum []) cs 1000%float 1000%float)) 1000
    = true.
Proof. cbv zeta. repeat split; vm_compute; reflexivity. Qed.

Print Assumptions div_floor_int.
Print Assumptions trade_impact_total_int.
Print Assumptions sized_shares_int.
Print Assumptions sized_shares_negative.
Print Assumptions trade_costs_int.
Print Assumptions no_overspend_float.
Print Assumptions directions_float.
Print Assumptions exk_theorem_instance.
Print Assumptions exp_percentage_tight.
