//! schedule/mod.rs and broker::DateTime on every day of a range, at several times of day.
use alator::broker::DateTime;
use alator::schedule::{DefaultTradingSchedule, LastBusinessDayTradingSchedule, TradingSchedule};
use serde_json::{json, Value};

fn wd(d: &DateTime) -> u64 {
    // 0 = Sunday … 6 = Saturday
    d.weekday().number_days_from_sunday() as u64
}

/// one integer per (day, time of day): dom + 32*month + 512*weekday + 4096*lbd + 8192*default
pub fn run(sc: &Value) -> Value {
    let from = sc["from_day"].as_i64().unwrap();
    let to = sc["to_day"].as_i64().unwrap();
    let times: Vec<i64> = sc["times"].as_array().unwrap().iter().map(|v| v.as_i64().unwrap()).collect();
    let mut out = Vec::new();
    for day in from..to {
        for t in &times {
            let ts = day * 86400 + t;
            let dt: DateTime = ts.into();
            let code = dt.day() as u64
                + 32 * (dt.month() as u8 as u64)
                + 512 * wd(&dt)
                + 4096 * (LastBusinessDayTradingSchedule::should_trade(&dt) as u64)
                + 8192 * (DefaultTradingSchedule::should_trade(&dt) as u64);
            out.push(code);
        }
    }
    json!({ "codes": out })
}
