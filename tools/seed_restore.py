#!/usr/bin/env python3
"""tools/seed_restore.py <Cxx> <label> — recreate the scratch worktree of a recorded seeded change (patch + demo from
/verif/seeded/<Cxx>_<label>/) so that tools/seed.py can confirm it again and re-run our checks against it."""
import json, os, shutil, subprocess, sys
prop, lab = sys.argv[1], sys.argv[2]
d = "/verif/seeded/%s_%s" % (prop, lab)
m = json.load(open(os.path.join(d, "meta.json")))
wt = "/tmp/seedr_%s_%s" % (prop, lab)
if not os.path.isdir(wt):
    subprocess.run("git -C /repo worktree add --detach %s HEAD -q" % wt, shell=True, check=True)
os.makedirs(os.path.join(wt, "out"), exist_ok=True)
shutil.copy(os.path.join(d, "patch.diff"), os.path.join(wt, "out", "%s.diff" % lab))
if os.path.exists(os.path.join(d, "notes.md")):
    shutil.copy(os.path.join(d, "notes.md"), os.path.join(wt, "out", "%s.md" % lab))
demo_rel = m["demo"]
name = "seed_demo_%s.rs" % lab.lower()
src = [f for f in os.listdir(d) if f.startswith("seed_demo_") and f.endswith(".rs")][0]
dst = os.path.join(wt, os.path.dirname(demo_rel), name)
shutil.copy(os.path.join(d, src), dst)
print(wt)
