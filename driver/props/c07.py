"""C07 — the backtest clock walks the dataset. Theorems: Props/C07.v; slice: server steps."""
import server


def run(res, tier, seed, replay):
    return server.run_property(res, "C07", tier, seed, replay, ["C07"])
