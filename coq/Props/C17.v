(* C17 — sells before buys: batch ordering and time priority. Statements only; for EVERY decision function (both exchanges) and every batch size. The sort of the buffer is an oracle argument `perm`; the theorems hold for every perm the model accepts (a permutation of the buffer whose result has every sell-side order before every buy-side order). Props/C17sort.v removes the oracle: the standard library's stable sort is modelled exactly and proved to satisfy that specification for the exchanges' comparator. *)
From Coq Require Import ZArith NArith List Bool String Permutation Sorted Floats.
From Alator Require Import Model.Num Model.Quirks Model.Exchange Model.Uist Model.Jura Model.Server
  Proofs.ListAux Proofs.ExchangeProofs Proofs.UistProofs Proofs.JuraProofs Proofs.ExchangeCorollaries
  Proofs.ServerProofs.
Import ListNotations.

(* The admitted list is the sorted buffer, numbered consecutively from the counter (after trigger children); admitted = submitted as multisets. *)
Theorem c17_admission :
  forall (Ord Qt T : Type) (asset_of : Ord -> N) (sym_of : Ord -> string)
           (is_sell : Ord -> bool) (decide : entry Ord -> Qt -> action Ord T) 
           (s : exch Ord T) (qs : quotes Qt) (perm : list nat) (s' : exch Ord T)
           (fl : list (N * T)) (adm : list (N * Ord)) (trig : list N),
         Inv s ->
         tick asset_of sym_of is_sell decide s qs perm = (s', OutTick fl adm trig) ->
         exists sorted : list Ord,
           apply_perm (buffer s) perm = Some sorted /\
           Permutation sorted (buffer s) /\
           sells_first is_sell sorted = true /\
           (let kids := number (next_id s) (flat_map (child_of sym_of decide qs) (book s)) in
            fl = flat_map (fill_of sym_of decide qs) (book s) /\
            trig = map fst kids /\
            adm = number (next_id s + N.of_nat (Datatypes.length kids)) sorted /\
            book s' =
            map (after_walk sym_of decide qs) (filter (keeps sym_of decide qs) (book s)) ++
            map fresh_entry kids ++ map fresh_entry adm /\
            buffer s' = [] /\
            next_id s' =
            (next_id s + N.of_nat (Datatypes.length kids) + N.of_nat (Datatypes.length sorted))%N /\
            xlog s' = xlog s ++ map snd fl).
Proof. exact @tick_spec. Qed.

(* Within a batch every sell-side order receives a smaller id than every buy-side order. *)
Theorem c17_sells_get_smaller_ids :
  forall (Ord : Type) (is_sell : Ord -> bool) (n : N) (l : list Ord) 
           (i : N) (o : Ord) (j : N) (o' : Ord),
         sells_first is_sell l = true ->
         In (i, o) (number n l) ->
         In (j, o') (number n l) -> is_sell o = true -> is_sell o' = false -> (i < j)%N.
Proof. exact @sells_first_ids. Qed.

(* Over the life of the exchange ids grow strictly with admission order. *)
Theorem c17_ids_grow_with_admission :
  forall (Ord Qt T : Type) (asset_of : Ord -> N) (sym_of : Ord -> string)
           (is_sell : Ord -> bool) (decide : entry Ord -> Qt -> action Ord T) 
           (s : exch Ord T) (ops : list (op Ord Qt)),
         Inv s ->
         StronglySorted N.lt (flat_map assigned (snd (run asset_of sym_of is_sell decide s ops))) /\
         Forall (fun i : N => (next_id s <= i)%N)
           (flat_map assigned (snd (run asset_of sym_of is_sell decide s ops))).
Proof. exact @assigned_sorted. Qed.

(* Fills of a tick are reported in book (id) order — so the sells of any batch execute before its buys. *)
Theorem c17_fills_in_book_order :
  forall (Ord Qt T : Type) (asset_of : Ord -> N) (sym_of : Ord -> string)
           (is_sell : Ord -> bool) (decide : entry Ord -> Qt -> action Ord T) 
           (s : exch Ord T) (qs : quotes Qt) (perm : list nat) (s' : exch Ord T)
           (fl : list (N * T)) (adm : list (N * Ord)) (trig : list N),
         Inv s ->
         tick asset_of sym_of is_sell decide s qs perm = (s', OutTick fl adm trig) ->
         StronglySorted N.lt (map fst fl) /\
         (forall (i : N) (t : T),
          In (i, t) fl ->
          (i < next_id s)%N /\
          (exists (e : entry Ord) (q : Qt),
             In e (book s) /\
             e_id e = i /\ lookup qs (sym_of (e_ord e)) = Some q /\ decide e q = AFill t)) /\
         (forall (j : N) (o : Ord), In (j, o) adm -> (next_id s <= j)%N) /\
         (forall j : N, In j trig -> (next_id s <= j)%N).
Proof. exact @tick_fills_old. Qed.

(* The book of every reachable state is sorted by id. *)
Theorem c17_book_sorted_always :
  forall (Ord Qt T : Type) (asset_of : Ord -> N) (sym_of : Ord -> string)
           (is_sell : Ord -> bool) (decide : entry Ord -> Qt -> action Ord T)
           (ops : list (op Ord Qt)), Inv (fst (run asset_of sym_of is_sell decide exch_init ops)).
Proof. exact @reachable_inv. Qed.

Print Assumptions c17_admission.
Print Assumptions c17_sells_get_smaller_ids.
Print Assumptions c17_ids_grow_with_admission.
Print Assumptions c17_fills_in_book_order.
Print Assumptions c17_book_sorted_always.
