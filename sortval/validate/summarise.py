#!/usr/bin/env python3
"""Summarise verdicts in cases/cases_<profile>_*.out against cases/index_<profile>.txt."""
import sys, os, re, glob, collections
profile = sys.argv[1]
here = os.getcwd()
index = {}
for line in open(os.path.join(here, "cases", "index_%s.txt" % profile)):
    p = line.split()
    index[int(p[0])] = p[1:]
verd = {}
bad_files = []
for out in sorted(glob.glob(os.path.join(here, "cases", "cases_%s_*.out" % profile))):
    txt = open(out).read()
    if "exit 0" not in txt:
        bad_files.append(out)
    for m in re.finditer(r"=\s*\((\d+),\s*(\w+)\)", txt):
        verd[int(m.group(1))] = m.group(2)
by_class = collections.Counter()
fails = []
for i, meta in index.items():
    v = verd.get(i, "MISSING")
    etype, kind, seed, n, arr, status = meta
    by_class[(etype, "kind" + kind, v)] += 1
    if v != "OK":
        fails.append((i, meta, v))
tot = collections.Counter(v for v in (verd.get(i, "MISSING") for i in index))
print("profile %s: %d cases: %s" % (profile, len(index), dict(tot)))
agg = collections.Counter()
for (etype, kind, v), c in sorted(by_class.items()):
    agg[(etype, v)] += c
for k, c in sorted(agg.items()):
    print("  %-5s %-12s %d" % (k[0], k[1], c))
aggk = collections.Counter()
for (etype, kind, v), c in by_class.items():
    aggk[(kind, v)] += c
for k, c in sorted(aggk.items()):
    print("  %-6s %-12s %d" % (k[0], k[1], c))
agga = collections.Counter()
for i, meta in index.items():
    agga[(meta[4], verd.get(i, "MISSING"))] += 1
for k, c in sorted(agga.items()):
    print("  arr %-12s %-12s %d" % (k[0], k[1], c))
for f in bad_files:
    print("  FAIL file did not finish cleanly:", f)
for i, meta, v in fails[:40]:
    print("  FAIL", i, " ".join(meta), v)
