(* C17, the sort itself. `order_buffer.sort_by(|a, _b| if a is sell-side {Less} else {Greater})` uses a comparator that looks only at its first argument — not a total order, so sort_by's contract says nothing and the result is whatever the implementation does. Model/Sort.v is a function-by-function transcription of the implementation the installed toolchain (rustc 1.95.0) runs: insertion_sort_shift_left up to 20 elements, driftsort above (run detection, powersort merge tree, lazy logical merges, merge up/down through the scratch buffer, stable quicksort with median-of-3 / recursive-median pivots and the equal-partition branch, small_sort_general with sort4_stable / bidirectional_merge, the panic on a detected order violation), generic in the element type, the comparator and size_of::<T>() (which selects scratch size and small-sort path). It was validated against the real binary on 32 075 inputs (lengths 0..70 densely, up to 120 000; nine comparator kinds including inconsistent ones that make the real sort panic; seven element types) with no difference, and every check run compares the exact admission order of every batch with it (aspect sort_exact). Statements only; all for `is_less a _ := key a` with an arbitrary key, every element type, EVERY length. All closed under the global context. *)
From Coq Require Import ZArith NArith List Bool String Permutation Arith.
From Alator Require Import Model.Sort Model.Exchange Model.ExchangeStd Proofs.SortProofs Proofs.SortExchange.
Import ListNotations.

(* Whatever the sort returns is a permutation of its input: the admitted set is exactly the submitted set. *)
Theorem c17s_result_is_permutation :
  forall (A : Type) (key : A -> bool) (sz : N) (l r : list A),
         std_sort_by sz (fun a _ : A => key a) l = Some r -> Permutation r l.
Proof. exact @T1_perm. Qed.

(* Every element with key true (sell-side) precedes every element with key false (buy-side) in the result — for every length, through every path of driftsort. *)
Theorem c17s_sells_first :
  forall (A : Type) (key : A -> bool) (sz : N) (l r : list A),
         (0 < sz)%N ->
         std_sort_by sz (fun a _ : A => key a) l = Some r ->
         sells_first key r /\ sells_first_b key r = true.
Proof. exact @T2_sells_first. Qed.

(* The sort always returns: no panic on order violation, no abort, the model's fuel always suffices — for this comparator. *)
Theorem c17s_total :
  forall (A : Type) (key : A -> bool) (sz : N) (l : list A),
         exists r : list A, std_sort_by sz (fun a _ : A => key a) l = Some r.
Proof. exact @T3_total. Qed.

(* Up to 20 elements (the insertion-sort path) the exact result: the sells in REVERSE submission order, then the buys in submission order — so the sort is not stable on this comparator, yet sells-first. *)
Theorem c17s_closed_form_up_to_20 :
  forall (A : Type) (key : A -> bool) (sz : N) (l : list A),
         (0 < sz)%N ->
         Datatypes.length l <= 20 ->
         std_sort_by sz (fun a _ : A => key a) l =
         Some (rev (filter key l) ++ filter (fun a : A => negb (key a)) l).
Proof. exact @T0_closed_form_le20. Qed.

(* A permutation is realised by an index permutation the oracle-style tick accepts. *)
Theorem c17s_index_permutation_exists :
  forall (A : Type) (l l' : list A),
         Permutation l' l -> exists p : list nat, apply_perm l p = Some l'.
Proof. exact @perm_of_permutation. Qed.

(* The oracle-free tick (the buffer sorted by the modelled std sort) is the oracle tick for a suitable oracle value: every theorem proved for all oracle values (C01, C03, C17, C18) applies to it. *)
Theorem c17s_tick_std_refines :
  forall (Ord Qt T : Type) (asset_of : Ord -> N) (sym_of : Ord -> string)
           (is_sell : Ord -> bool) (decide : entry Ord -> Qt -> action Ord T) 
           (sz : N),
         (0 < sz)%N ->
         forall (s : exch Ord T) (qs : quotes Qt),
         exists perm : list nat,
           tick asset_of sym_of is_sell decide s qs perm =
           tick_std asset_of sym_of is_sell decide sz s qs.
Proof. exact @tick_std_refines. Qed.

(* The oracle-free tick never lands in the model's `oracle rejected` outcome: the std sort always yields an admissible order. *)
Theorem c17s_tick_std_never_rejects :
  forall (Ord Qt T : Type) (asset_of : Ord -> N) (sym_of : Ord -> string)
           (is_sell : Ord -> bool) (decide : entry Ord -> Qt -> action Ord T) 
           (sz : N),
         (0 < sz)%N ->
         forall (s : exch Ord T) (qs : quotes Qt),
         snd (tick_std asset_of sym_of is_sell decide sz s qs) <> OutBadOracle.
Proof. exact @tick_std_no_bad_oracle. Qed.

(* Likewise for whole histories: every run of the oracle-free machine is a run of the oracle machine. *)
Theorem c17s_run_std_refines :
  forall (Ord Qt T : Type) (asset_of : Ord -> N) (sym_of : Ord -> string)
           (is_sell : Ord -> bool) (decide : entry Ord -> Qt -> action Ord T) 
           (sz : N),
         (0 < sz)%N ->
         forall (ops_std : list (op_std Ord Qt)) (s : exch Ord T),
         exists ops : list (op Ord Qt),
           map erase ops = ops_std /\
           run asset_of sym_of is_sell decide s ops =
           run_std asset_of sym_of is_sell decide sz s ops_std.
Proof. exact @run_std_refines. Qed.

(* … and none of its outputs is `oracle rejected`. *)
Theorem c17s_run_std_never_rejects :
  forall (Ord Qt T : Type) (asset_of : Ord -> N) (sym_of : Ord -> string)
           (is_sell : Ord -> bool) (decide : entry Ord -> Qt -> action Ord T) 
           (sz : N),
         (0 < sz)%N ->
         forall (ops_std : list (op_std Ord Qt)) (s : exch Ord T),
         ~ In OutBadOracle (snd (run_std asset_of sym_of is_sell decide sz s ops_std)).
Proof. exact @run_std_no_bad_oracle. Qed.

(* For batches of at most 20 the whole tick result in closed form: admitted = sells reversed then buys, numbered consecutively after the trigger children. *)
Theorem c17s_tick_admits_up_to_20 :
  forall (Ord Qt T : Type) (asset_of : Ord -> N) (sym_of : Ord -> string)
           (is_sell : Ord -> bool) (decide : entry Ord -> Qt -> action Ord T) 
           (sz : N) (s : exch Ord T) (qs : quotes Qt) (bk : list (entry Ord)) 
           (fl : list (N * T)) (dl : list key) (ins : list Ord),
         (0 < sz)%N ->
         Datatypes.length (buffer s) <= 20 ->
         walk asset_of sym_of decide qs (book s) = Some (bk, fl, dl, ins) ->
         snd (tick_std asset_of sym_of is_sell decide sz s qs) =
         OutTick fl
           (number (next_id s + N.of_nat (Datatypes.length ins))
              (rev (filter is_sell (buffer s)) ++
               filter (fun o : Ord => negb (is_sell o)) (buffer s)))
           (map fst (number (next_id s) ins)).
Proof. exact @tick_std_admits_le20. Qed.

Print Assumptions c17s_result_is_permutation.
Print Assumptions c17s_sells_first.
Print Assumptions c17s_total.
Print Assumptions c17s_closed_form_up_to_20.
Print Assumptions c17s_index_permutation_exists.
Print Assumptions c17s_tick_std_refines.
Print Assumptions c17s_tick_std_never_rejects.
Print Assumptions c17s_run_std_refines.
Print Assumptions c17s_run_std_never_rejects.
Print Assumptions c17s_tick_admits_up_to_20.
