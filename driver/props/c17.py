"""C17 — exchange slice; see driver/exch.py and Props/C17.v"""
import exch


def run(res, tier, seed, replay):
    return exch.run_property(res, "C17", tier, seed, replay, ["C17"])
