"""Exchange slice (UistV1 / JuraV1 driven directly): scenario generators, trace -> Gallina,
step-wise correspondence, and direct readings of C01/C02/C03/C17/C18 on the observed traces."""
import random

from common import *

IMPORTS = ("From Alator Require Import Model.Num Model.Quirks Model.Exchange Model.Uist Model.Jura "
           "Check.Eqb Check.ExchCheck.")

ASPECTS = {0: "kind", 1: "fills", 2: "admitted", 3: "triggered", 4: "book", 5: "buffer", 6: "next_id", 7: "log", 8: "sort_exact", 9: "state_invariant"}
A_KIND, A_FILLS, A_ADMITTED, A_TRIGGERED, A_BOOK, A_BUFFER, A_NEXTID, A_LOG, A_SORT, A_INV = [1 << i for i in range(10)]

UTYPES = ["MarketSell", "MarketBuy", "LimitSell", "LimitBuy", "StopSell", "StopBuy"]
SYMS = ["ABC", "BCD", "XYZ"]
GRID = [90.0 + 0.5 * i for i in range(41)]  # 90 .. 110


# ------------------------------------------------------------------------------------------------
# generators


def gen_quotes(rng, date, syms, miss=0.3, weird=False):
    qs = []
    for s in syms:
        if rng.random() < miss:
            continue
        bid = rng.choice(GRID)
        ask = bid + rng.choice([0.0, 0.5, 1.0])
        qd = date
        sym = s
        r = rng.random()
        if r < 0.04:
            ask = bid - rng.choice([0.5, 1.0])       # a crossed quote (bid above ask): legal data, nothing forbids it
        elif r < 0.06:
            k = rng.choice([2.0 ** -1000, 2.0 ** 900])    # same grid at an extreme magnitude (exact scaling by a power of two)
            bid, ask = bid * k, ask * k
        if weird and rng.random() < 0.2:
            qd = date + rng.choice([-5, 7])      # quote dated differently from the tick
        if weird and rng.random() < 0.1:
            bid, ask = rng.choice([(float("nan"), ask), (bid, float("nan")), (0.0, 0.0), (-bid, -ask)])
        qs.append(dict(key=s, bid=f2b(bid), ask=f2b(ask), date=qd, symbol=sym))
        if s.isdigit() and rng.random() < 0.06:
            # Jura looks an asset up under its decimal rendering: a quote keyed "07" or "+7" is a different instrument
            # from asset 7 (it must neither fill nor use up the single attempt of an order on asset 7)
            k2 = rng.choice(["0" + s, "+" + s, "00" + s, s + ".0"])
            b2 = rng.choice(GRID)
            qs.append(dict(key=k2, bid=f2b(b2), ask=f2b(b2 + 0.5), date=qd, symbol=k2))
    return qs


def gen_uist_order(rng, malformed=False):
    t = rng.choice(UTYPES)
    sym = rng.choice(SYMS + (["NOPE"] if rng.random() < 0.1 else []))
    shares = rng.choice([1.0, 10.0, 25.5, 100.0, float(rng.randint(1, 500))])
    price = None if t.startswith("Market") else rng.choice(GRID + [GRID[0] - 1, GRID[-1] + 2])
    via = "ctor" if rng.random() < 0.5 else "json"
    if malformed:
        r = rng.random()
        if r < 0.3:
            shares = rng.choice([0.0, -5.0, float("nan"), float("inf")])
        elif r < 0.6 and price is not None:
            price = rng.choice([None, float("nan"), -1.0, 0.0, float("inf")])
        elif price is None:
            price = rng.choice([None, 100.0])     # market order carrying a price
        via = "json"
    if via == "json" and not malformed and price is not None and rng.random() < 0.05:
        # `price` is an Option on the wire: a limit / stop order deserialised with "price": null is a legal message
        # (Option ordering: None < Some(_), so a limit sell / stop buy fires at once and a limit buy / stop sell never)
        price = None
    o = dict(type=t, symbol=sym, shares=f2b(shares), price=None if price is None else f2b(price), via=via)
    if via == "json" and rng.random() < 0.15:
        # a client re-submitting an Order object it got back from a tick: order_id already set
        o["order_id"] = rng.choice([0, 1, 2, 3, 7])
    return o


def gen_uist_scenario(rng, n_ops=None, malformed=False, batch=None, weird=False):
    ops = []
    date = rng.choice([100, 100, 100, -50, -2, 0, 1700000000])     # dates are i64: before, across and far after the epoch
    inserted = 0
    n_ops = n_ops or rng.randint(6, 40)
    if batch:
        # one large batch of a given arrangement class, then ticks
        if len(batch) > 300:
            # one step for the whole batch but its last order (the per-insert snapshots are quadratic in the batch size)
            ops.append(dict(op="insert_many", orders=batch[:-1]))
            ops.append(dict(op="insert", order=batch[-1]))
        else:
            for o in batch:
                ops.append(dict(op="insert", order=o))
        for _ in range(3):
            ops.append(dict(op="tick", quotes=gen_quotes(rng, date, SYMS, miss=0.1)))
            date += 1
        return dict(kind="uist", ops=ops)
    for _ in range(n_ops):
        r = rng.random()
        if r < 0.5:
            ops.append(dict(op="insert", order=gen_uist_order(rng, malformed and rng.random() < 0.3)))
            inserted += 1
        elif r < 0.85:
            ops.append(dict(op="tick", quotes=gen_quotes(rng, date, SYMS, weird=weird)))
            date += rng.choice([1, 1, 1, 3])
        else:
            k = rng.random()
            if k < 0.6 and inserted:
                oid = rng.randrange(inserted)
            elif k < 0.8:
                oid = inserted                      # the next id to be handed out
            else:
                oid = rng.choice([inserted + 7, 10 ** 6, 2 ** 63])
            ops.append(dict(op="delete", id=oid))
    return dict(kind="uist", ops=ops, via_default=rng.random() < 0.3)   # UistV1::default() instead of ::new()


def uist_batch(rng, n, arrangement):
    """n orders arranged by class: 'alt', 'buys_then_sells', 'sells_then_buys', 'random', 'one_sell_last',
    'all_buys', 'all_sells'"""
    out = []
    for i in range(n):
        if arrangement == "alt":
            sell = i % 2 == 0
        elif arrangement == "buys_then_sells":
            sell = i >= n // 2
        elif arrangement == "sells_then_buys":
            sell = i < n // 2
        elif arrangement == "one_sell_last":
            sell = i == n - 1
        elif arrangement == "one_buy_first":
            sell = i != 0
        elif arrangement == "all_buys":
            sell = False
        elif arrangement == "all_sells":
            sell = True
        else:
            sell = rng.random() < 0.5
        t = rng.choice([x for x in UTYPES if x.endswith("Sell") == sell])
        price = None if t.startswith("Market") else rng.choice(GRID)
        # distinct share counts make the permutation observable
        out.append(dict(type=t, symbol=rng.choice(SYMS), shares=f2b(float(i + 1)),
                        price=None if price is None else f2b(price), via="json"))
    return out


ARRANGEMENTS = ["alt", "buys_then_sells", "sells_then_buys", "random", "one_sell_last", "one_buy_first",
                "all_buys", "all_sells"]

JCTORS = ["market_buy", "market_sell", "limit_buy", "limit_sell", "stop_buy", "stop_sell",
          "takeprofit_buy", "takeprofit_sell"]
ASSETS = [0, 1, 7]


def fmt_px(x):
    return repr(float(x))


def gen_jura_order(rng, malformed=False, grid=GRID):
    asset = rng.choice(ASSETS + ([3] if rng.random() < 0.1 else []))
    sz = rng.choice(["1", "10.0", "25.5", "100", repr(float(rng.randint(1, 500)))])
    px = rng.choice(grid + [grid[0] - 1, grid[-1] + 2])
    r = rng.random()
    if r < 0.55:
        c = rng.choice(JCTORS)
        # IOC boundary: limit such that limit*1.1 is just at / just below a grid ask
        if c in ("market_buy", "market_sell") and rng.random() < 0.5:
            a = rng.choice(grid)
            if c == "market_buy":
                px = a / 1.1
                if rng.random() < 0.5:
                    px = math.nextafter(px, 0.0)
            else:
                px = a / 0.9
                if rng.random() < 0.5:
                    px = math.nextafter(px, 1e9)
        return dict(ctor=c, asset=asset, sz=sz, limit_px=fmt_px(px))
    is_buy = rng.random() < 0.5
    if r < 0.8:
        tif = rng.choice(["Ioc", "Gtc"])
        ot = dict(Limit=dict(tif=tif))
    else:
        trig = rng.choice(grid)
        if rng.random() < 0.3:
            # a price with nine decimals (at most 15 significant digits, so every JSON parser reads it back exactly): wire
            # formats that keep "enough" decimals are a classic way to change a price in transit
            trig = float("%.9f" % (trig + rng.randint(1, 999) * 1e-9))
        ot = dict(Trigger=dict(trigger_px=f2b(trig), is_market=rng.random() < 0.5, tpsl=rng.choice(["Tp", "Sl"])))
    o = dict(asset=asset, is_buy=is_buy, limit_px=fmt_px(px), sz=sz, reduce_only=rng.random() < 0.2,
             cloid=rng.choice([None, None, "c1", "xyz"]), order_type=ot)
    if not malformed and rng.random() < 0.1:
        # prices and sizes travel as strings; anything str::parse::<f64>() accepts is a legal message: infinities (a buy
        # "at any price"), NaN (never comparable), exponents, signs, bare points, magnitudes that over/underflow
        unusual = ["inf", "infinity", "-inf", "NaN", "1e2", ".5", "5.", "+7.5", "-3", "1e-400", "1e400", "1E1"]
        if rng.random() < 0.7:
            o["limit_px"] = rng.choice(unusual)
        else:
            o["sz"] = rng.choice(["inf", "NaN", "1e1", ".5", "+2", "1e400"])
    if malformed:
        k = rng.random()
        if k < 0.25:
            o["order_type"] = dict(Limit=dict(tif="Alo"))
        elif k < 0.5:
            o["limit_px"] = rng.choice(["abc", "", "1,5", "NaN", "inf", "-3"])
        elif k < 0.75:
            o["sz"] = rng.choice(["abc", "", "0", "-1", "NaN"])
    return o


def gen_jura_scenario(rng, n_ops=None, malformed=False, batch=None):
    ops = []
    date = rng.choice([100, 100, 100, -50, -2, 0, 1700000000])     # dates are i64: before, across and far after the epoch
    inserted = 0
    n_ops = n_ops or rng.randint(6, 40)
    syms = [str(a) for a in ASSETS]
    if batch:
        for o in batch:
            ops.append(dict(op="insert", order=o))
        for _ in range(3):
            ops.append(dict(op="tick", quotes=gen_quotes(rng, date, syms, miss=0.1)))
            date += 1
        return dict(kind="jura", ops=ops)
    for _ in range(n_ops):
        r = rng.random()
        if r < 0.45:
            ops.append(dict(op="insert", order=gen_jura_order(rng, malformed and rng.random() < 0.3)))
            inserted += 1
        elif r < 0.85:
            ops.append(dict(op="tick", quotes=gen_quotes(rng, date, syms, miss=0.25)))
            date += 1
        else:
            k = rng.random()
            oid = rng.randrange(inserted + 2) if k < 0.8 else rng.choice([inserted + 9, 2 ** 63])
            asset = rng.choice(ASSETS) if rng.random() < 0.8 else 5
            ops.append(dict(op="delete", id=oid, asset=asset))
    return dict(kind="jura", ops=ops, via_default=rng.random() < 0.3)   # JuraV1::default() instead of ::new()


def jura_batch(rng, n, arrangement):
    out = []
    for i in range(n):
        if arrangement == "alt":
            sell = i % 2 == 0
        elif arrangement == "buys_then_sells":
            sell = i >= n // 2
        elif arrangement == "sells_then_buys":
            sell = i < n // 2
        elif arrangement == "one_sell_last":
            sell = i == n - 1
        elif arrangement == "one_buy_first":
            sell = i != 0
        elif arrangement == "all_buys":
            sell = False
        elif arrangement == "all_sells":
            sell = True
        else:
            sell = rng.random() < 0.5
        kind = rng.random()
        if kind < 0.6:
            ot = dict(Limit=dict(tif=rng.choice(["Ioc", "Gtc"])))
        else:
            ot = dict(Trigger=dict(trigger_px=f2b(rng.choice(GRID)), is_market=rng.random() < 0.5,
                                   tpsl=rng.choice(["Tp", "Sl"])))
        out.append(dict(asset=rng.choice(ASSETS), is_buy=not sell, limit_px=fmt_px(rng.choice(GRID)),
                        sz=repr(float(i + 1)), reduce_only=False, cloid=None, order_type=ot))
    return out


# ------------------------------------------------------------------------------------------------
# trace -> Gallina


def g_uorder(o):
    return gc("mkUOrder", o["type"], gs(o["symbol"]), gf(o["shares"]), go(o["price"], gf))


def g_trade(t):
    return gc("mkTrade", gs(t["symbol"]), gf(t["value"]), gf(t["quantity"]), gz(t["date"]), t["side"])


def g_quote(q):
    return gt(gs(q["key"]), gc("mkQuote", gf(q["bid"]), gf(q["ask"]), gz(q["date"]), gs(q["symbol"])))


def g_usnap(s):
    return gc("mkExch", gl([gc("mkEntry", gn(o["id"]), g_uorder(o), "false") for o in s["book"]]),
              gl([g_uorder(o) for o in s["buffer"]]), gn(s["next_id"]), gl([g_trade(t) for t in s["log"]]))


def strip_id(o):
    return {k: v for k, v in o.items() if k not in ("id", "order_id", "via")}


def compute_perm(buffer, admitted, key):
    """indices into `buffer` giving `admitted` (greedy on equal content); identity-padded on failure"""
    used = [False] * len(buffer)
    perm = []
    kb = [key(o) for o in buffer]
    for a in admitted:
        ka = key(a)
        for i, k in enumerate(kb):
            if not used[i] and k == ka:
                used[i] = True
                perm.append(i)
                break
    if len(perm) != len(buffer):
        return list(range(len(buffer)))
    return perm


def ukey(o):
    return json.dumps(strip_id(o), sort_keys=True)


def g_perm(p):
    return gl([gn(i) for i in p])


def uist_steps(sc, tr):
    """-> list of Gallina ustep terms, list of python step dicts (pre, op, result, post)"""
    terms, steps = [], []
    for k, r in enumerate(tr["results"]):
        op = sc["ops"][k]
        pre = tr["snaps"][k]
        panic = isinstance(r, dict) and "panic" in r
        post = pre if panic else tr["snaps"][k + 1]
        if op["op"] == "insert_many":
            # compared as the insertion of its last order from the state just before it (the buffer as observed afterwards,
            # less that order): the batch matters for the tick that follows, which starts from the observed buffer
            o = op["orders"][-1]
            if not panic:
                pre = dict(post, buffer=post["buffer"][:-1])
            gop = gc("Insert", g_uorder(dict(type=o["type"], symbol=o["symbol"], shares=o["shares"], price=o["price"])))
        elif op["op"] == "insert":
            o = op["order"]
            gop = gc("Insert", g_uorder(dict(type=o["type"], symbol=o["symbol"], shares=o["shares"], price=o["price"])))
        elif op["op"] == "delete":
            gop = gc("Delete", gt(gn(0), gn(op["id"])))
        else:
            perm = compute_perm(pre["buffer"], [] if panic else r["admitted"], ukey)
            gop = gc("Tick", gl([g_quote(q) for q in op["quotes"]]), "(map N.to_nat %s)" % g_perm(perm))
        if panic:
            gobs = "ObsPanic"
        elif r is None:
            gobs = "ObsUnit"
        else:
            gobs = gc("ObsTick", gl([g_trade(t) for t in r["trades"]]),
                      gl([gt(gn(o["id"] if o["id"] is not None else 2 ** 64), g_uorder(o)) for o in r["admitted"]]), "[]")
        terms.append(gc("mkUStep", g_usnap(pre), gop, gobs, g_usnap(post)))
        steps.append(dict(pre=pre, op=op, result=r, post=post, panic=panic))
    return terms, steps


def g_jtype(ot):
    if "Limit" in ot:
        return gc("JLimit", ot["Limit"]["tif"])
    t = ot["Trigger"]
    return gc("JTrigger", gf(t["trigger_px"]), gb(t["is_market"]), t["tpsl"])


def g_jorder(o):
    return gc("mkJOrder", gn(o["asset"]), gb(o["is_buy"]), go(o["limit_px_parsed"], gf), go(o["sz_parsed"], gf),
              gb(o["reduce_only"]), go(o["cloid"], gs), g_jtype(o["order_type"]))


def g_fill(f):
    return gc("mkFill", gs(f["coin"]), gn(f["oid"]), gf(f["px"]), gb(f["side"] == "A"), gf(f["sz"]), gz(f["time"]))


def g_jsnap(s):
    return gc("mkExch", gl([gc("mkEntry", gn(e["id"]), g_jorder(e["order"]), gb(e["flag"])) for e in s["book"]]),
              gl([g_jorder(o) for o in s["buffer"]]), gn(s["next_id"]), gl([g_fill(f) for f in s["log"]]))


def jkey(o):
    return json.dumps(o, sort_keys=True)


def ctor_reading(o, built):
    """C18's vocabulary read on the constructors: `market_*` is an immediate-or-cancel limit, `limit_*` a good-till-cancel
    one, `stop_*` a stop-loss trigger, `takeprofit_*` a take-profit trigger, `*_buy` buys and `*_sell` sells, for the asset,
    size and price given. -> failure text or None (is_market / reduce_only / cloid are the constructor's own business)"""
    c = o["ctor"]
    want_buy = c.endswith("buy")
    ot = built["order_type"]
    if built["is_buy"] != want_buy:
        return "Order::%s built a %s order" % (c, "buy" if built["is_buy"] else "sell")
    if c.startswith("market") and ot != dict(Limit=dict(tif="Ioc")):
        return "Order::%s did not build an immediate-or-cancel limit order: %s" % (c, ot)
    if c.startswith("limit") and ot != dict(Limit=dict(tif="Gtc")):
        return "Order::%s did not build a good-till-cancel limit order: %s" % (c, ot)
    if c.startswith("stop") and ("Trigger" not in ot or ot["Trigger"]["tpsl"] != "Sl"):
        return "Order::%s did not build a stop-loss trigger order: %s" % (c, ot)
    if c.startswith("takeprofit") and ("Trigger" not in ot or ot["Trigger"]["tpsl"] != "Tp"):
        return "Order::%s did not build a take-profit trigger order: %s" % (c, ot)
    if built["asset"] != o["asset"] or built["limit_px"] != o["limit_px"] or built["sz"] != o["sz"]:
        return "Order::%s changed the asset, size or price it was given" % c
    if "Trigger" in ot and built.get("limit_px_parsed") is not None and ot["Trigger"]["trigger_px"] != built["limit_px_parsed"]:
        return "Order::%s: the trigger price is not the price given" % c
    return None


def jura_steps(sc, tr):
    terms, steps = [], []
    for k, r in enumerate(tr["results"]):
        op = sc["ops"][k]
        pre = tr["snaps"][k]
        panic = isinstance(r, dict) and "panic" in r
        post = pre if panic else tr["snaps"][k + 1]
        if op["op"] == "insert":
            if panic:
                # a constructor panicked on an unparsable price: outside the model (no exchange call made)
                break
            gop = gc("Insert", g_jorder(r["inserted"]))
            gobs = "ObsUnit"
            if "ctor" in op["order"]:
                bad = ctor_reading(op["order"], r["inserted"])
                if bad:
                    sc.setdefault("_ctor_failures", []).append(dict(step=k, what=bad, order=op["order"], built=r["inserted"]))
        elif op["op"] == "delete":
            gop = gc("Delete", gt(gn(op["asset"]), gn(op["id"])))
            gobs = "ObsPanic" if panic else "ObsUnit"
        else:
            perm = compute_perm(pre["buffer"], [] if panic else r["admitted"], jkey)
            gop = gc("Tick", gl([g_quote(q) for q in op["quotes"]]), "(map N.to_nat %s)" % g_perm(perm))
            if panic:
                gobs = "ObsPanic"
            else:
                # admitted orders carry no id on Jura: take them from the post-state book tail
                n = len(r["admitted"])
                ids = [e["id"] for e in post["book"][len(post["book"]) - n:]] if n else []
                gobs = gc("ObsTick", gl([g_fill(f) for f in r["fills"]]),
                          gl([gt(gn(i), g_jorder(o)) for i, o in zip(ids, r["admitted"])]),
                          gl([gn(i) for i in r["triggered"]]))
        terms.append(gc("mkJStep", g_jsnap(pre), gop, gobs, g_jsnap(post)))
        steps.append(dict(pre=pre, op=op, result=r, post=post, panic=panic))
    return terms, steps


def run_exchange(wd, scs, quirks="clean", name="exch"):
    """-> (traces, per-scenario python steps, mismatches [(sc, step, mask)])"""
    trs = run_harness_sharded("exch", scs, wd)
    all_terms, all_steps = [], []
    u_idx, j_idx = [], []
    for i, (sc, tr) in enumerate(zip(scs, trs)):
        if "panic" in tr and "snaps" not in tr:
            raise RuntimeError("harness-level panic: %s" % tr)
        if sc["kind"] == "uist":
            t, s = uist_steps(sc, tr)
            u_idx.append(i)
        else:
            t, s = jura_steps(sc, tr)
            j_idx.append(i)
        all_terms.append(t)
        all_steps.append(s)
    mism = []
    if u_idx:
        r = eval_steps(wd, name + "_u", IMPORTS, [all_terms[i] for i in u_idx], "ustep_mask_sz %s" % gn(order_size(trs, u_idx)))
        mism += [(u_idx[a], b, m) for a, b, m in r]
    if j_idx:
        r = eval_steps(wd, name + "_j", IMPORTS, [all_terms[i] for i in j_idx], "jstep_mask_sz %s %s" % (quirks, gn(order_size(trs, j_idx))))
        mism += [(j_idx[a], b, m) for a, b, m in r]
    return trs, all_steps, sorted(mism)


def mask_names(m):
    return [n for b, n in ASPECTS.items() if m & (1 << b)]


# ------------------------------------------------------------------------------------------------
# direct readings of the properties on observed traces (used to turn a broken correspondence into a
# concrete failing input; never what makes a run pass)


def fin(b):
    x = b2f(b)
    return not (math.isnan(x) or math.isinf(x))


def quote_for(op, key):
    for q in op["quotes"]:
        if q["key"] == key:
            return q
    return None


def uist_should_fill(o, q):
    """C02's condition, on f64 values (None when outside the property's domain)"""
    t = o["type"]
    if t.startswith("Market"):
        return True
    if o["price"] is None or not fin(o["price"]) or not fin(q["bid"]) or not fin(q["ask"]):
        return None
    p, bid, ask = b2f(o["price"]), b2f(q["bid"]), b2f(q["ask"])
    return {"LimitBuy": ask <= p, "LimitSell": bid >= p, "StopBuy": ask >= p, "StopSell": bid <= p}[t]


def oracle_c02(sc, steps):
    if sc["kind"] != "uist":
        return None
    for k, st in enumerate(steps):
        if st["op"]["op"] != "tick" or st["panic"]:
            continue
        pre, post, r = st["pre"], st["post"], st["result"]
        exp_trades, exp_rest = [], []
        for o in pre["book"]:
            q = quote_for(st["op"], o["symbol"])
            sf = uist_should_fill(o, q) if q else False
            if sf is None:
                exp_trades = None
                break
            if sf:
                sell = o["type"].endswith("Sell")
                px = b2f(q["bid"] if sell else q["ask"])
                exp_trades.append(dict(symbol=o["symbol"], value=f2b(px * b2f(o["shares"])), quantity=o["shares"],
                                       date=q["date"], side="Sell" if sell else "Buy"))
            else:
                exp_rest.append(o)
        if exp_trades is None:
            continue
        got = r["trades"]

        def same_t(a, b):
            return (a["symbol"] == b["symbol"] and a["date"] == b["date"] and a["side"] == b["side"]
                    and feq_bits(a["value"], b["value"]) and feq_bits(a["quantity"], b["quantity"]))
        if len(got) != len(exp_trades) or not all(same_t(a, b) for a, b in zip(got, exp_trades)):
            return dict(step=k, what="fills of this tick differ from the fill conditions of C02",
                        expected_trades=exp_trades, got_trades=got)
        rest_now = post["book"][:len(post["book"]) - len(r["admitted"])]
        if [ukey_id(o) for o in rest_now] != [ukey_id(o) for o in exp_rest]:
            return dict(step=k, what="resting orders after the tick are not exactly the unfilled ones, unchanged",
                        expected_resting=exp_rest, got_resting=rest_now)
    return None


def feq_bits(a, b):
    x, y = b2f(a), b2f(b)
    return x == y or (math.isnan(x) and math.isnan(y))


def ukey_id(o):
    return json.dumps(o, sort_keys=True)


def is_sell_order(kind, o):
    return o["type"].endswith("Sell") if kind == "uist" else not o["is_buy"]


def oracle_c17(sc, steps):
    kind = sc["kind"]
    max_id = -1
    for k, st in enumerate(steps):
        if st["op"]["op"] != "tick" or st["panic"]:
            continue
        pre, post, r = st["pre"], st["post"], st["result"]
        adm = r["admitted"]
        key = ukey if kind == "uist" else jkey
        if sorted(key(o) for o in adm) != sorted(key(o) for o in pre["buffer"]):
            return dict(step=k, what="admitted set differs from the submitted set")
        seen_buy = False
        for o in adm:
            if is_sell_order(kind, o):
                if seen_buy:
                    return dict(step=k, what="a sell-side order is admitted after a buy-side order of the same batch",
                                admitted=[("S" if is_sell_order(kind, x) else "B") for x in adm])
            else:
                seen_buy = True
        n = len(adm)
        tail = post["book"][len(post["book"]) - n:] if n else []
        ids = [e["id"] for e in tail]
        trig = r.get("triggered", [])
        for i in trig + ids:
            if i <= max_id:
                return dict(step=k, what="ids do not grow strictly with admission order", ids=trig + ids, previous_max=max_id)
            max_id = i
        if kind == "uist" and [o["id"] for o in adm] != ids:
            return dict(step=k, what="ids shown on admission differ from the ids in the book")
        book_ids = [e["id"] for e in post["book"]]
        if book_ids != sorted(book_ids):
            return dict(step=k, what="book is not in id (admission) order", book_ids=book_ids)
        if kind == "jura":
            oids = [f["oid"] for f in r["fills"]]
            if oids != sorted(oids):
                return dict(step=k, what="fills are not reported in book order", oids=oids)
        else:
            gone = [o for o in pre["book"] if o["id"] not in set(book_ids)]
            if len(gone) == len(r["trades"]) and any(
                    g["symbol"] != t["symbol"] or not feq_bits(g["shares"], t["quantity"])
                    for g, t in zip(gone, r["trades"])):
                return dict(step=k, what="fills are not reported in book order")
    return None


def oracle_c03(sc, steps):
    kind = sc["kind"]
    seen_ids, dead, filled = set(), set(), set()
    pending_inserts = 0
    for k, st in enumerate(steps):
        if st["panic"]:
            break
        pre, post, r, op = st["pre"], st["post"], st["result"], st["op"]
        pre_ids = [e["id"] for e in pre["book"]]
        post_ids = [e["id"] for e in post["book"]]
        if len(set(post_ids)) != len(post_ids):
            return dict(step=k, what="two resting orders share an id", ids=post_ids)
        if op["op"] == "insert_many":
            pending_inserts += len(op["orders"])
        elif op["op"] == "insert":
            pending_inserts += 1
            if post_ids != pre_ids or len(post["buffer"]) != len(pre["buffer"]) + 1:
                return dict(step=k, what="insert did not just append to the buffer")
        elif op["op"] == "delete":
            asset = op.get("asset", 0)
            target = [e for e in pre["book"] if e["id"] == op["id"] and (kind == "uist" or e["order"]["asset"] == asset)]
            expect = [i for i in pre_ids if not (target and i == target[0]["id"])]
            if post_ids != expect:
                return dict(step=k, what="cancel did not remove exactly the resting order with that id (or was not a no-op)",
                            before=pre_ids, after=post_ids, asked=op)
            if target:
                dead.add(target[0]["id"])
            if len(post["buffer"]) != len(pre["buffer"]):
                return dict(step=k, what="cancel touched the buffer")
        else:
            adm = r["admitted"]
            if len(adm) != pending_inserts or len(post["buffer"]) != 0:
                return dict(step=k, what="orders inserted since the last tick are not reported admitted exactly once",
                            inserted=pending_inserts, admitted=len(adm))
            pending_inserts = 0
            n = len(adm)
            new_ids = list(r.get("triggered", [])) + [e["id"] for e in (post["book"][len(post["book"]) - n:] if n else [])]
            for i in new_ids:
                if i in seen_ids:
                    return dict(step=k, what="an id was handed out twice", id=i)
                seen_ids.add(i)
            gone = [i for i in pre_ids if i not in set(post_ids)]
            if kind == "jura":
                for f in r["fills"]:
                    if f["oid"] in filled or f["oid"] in dead:
                        return dict(step=k, what="an order filled twice / after it was removed", oid=f["oid"])
                    if f["oid"] not in pre_ids:
                        return dict(step=k, what="fill for an id that was not resting", oid=f["oid"])
                    filled.add(f["oid"])
                    e = [x for x in pre["book"] if x["id"] == f["oid"]][0]
                    if e["order"]["sz_parsed"] is None or not feq_bits(f["sz"], e["order"]["sz_parsed"]):
                        return dict(step=k, what="fill not for the full quantity", oid=f["oid"])
                    if f["oid"] not in gone:
                        return dict(step=k, what="filled order still resting", oid=f["oid"])
            else:
                if len(r["trades"]) != len(gone):
                    return dict(step=k, what="number of fills differs from the number of orders that left the book",
                                trades=len(r["trades"]), left=gone)
            for i in gone:
                if i in dead:
                    return dict(step=k, what="a removed order was resting again", id=i)
                dead.add(i)
        for i in post_ids:
            if i in dead:
                return dict(step=k, what="a filled/cancelled/expired order is resting again", id=i)
            if i not in seen_ids:
                return dict(step=k, what="resting order with an id never reported", id=i)
        if set(post_ids) | dead != seen_ids:
            return dict(step=k, what="admitted != filled + cancelled/expired + resting",
                        admitted=sorted(seen_ids), resting=post_ids, removed=sorted(dead))
    return None


def oracle_c01(sc, steps):
    kind = sc["kind"]
    for k, st in enumerate(steps):
        if st["op"]["op"] != "tick" or st["panic"]:
            continue
        pre, post, r = st["pre"], st["post"], st["result"]
        pre_ids = set(e["id"] for e in pre["book"])
        if kind == "jura":
            for f in r["fills"]:
                if f["oid"] not in pre_ids:
                    return dict(step=k, what="fill for an order that was not resting before this tick", oid=f["oid"])
                q = quote_for(st["op"], f["coin"])
                if q is None:
                    return dict(step=k, what="fill without a quote for its asset on this tick", oid=f["oid"])
                if f["time"] != q["date"] or not (feq_bits(f["px"], q["ask"]) or feq_bits(f["px"], q["bid"])):
                    return dict(step=k, what="fill not dated/priced from this tick's quote", fill=f, quote=q)
        else:
            n = len(r["admitted"])
            post_ids = [e["id"] for e in post["book"]]
            gone = [i for i in pre_ids if i not in set(post_ids)]
            if len(r["trades"]) > len(gone):
                return dict(step=k, what="more fills than resting orders that left the book (a just-admitted order filled?)")
            if n and len(post["book"]) >= n:
                tail = post["book"][len(post["book"]) - n:]
                if [ukey(o) for o in tail] != [ukey(o) for o in r["admitted"]]:
                    return dict(step=k, what="orders admitted on this tick are not all resting after it")
            for t in r["trades"]:
                q = quote_for(st["op"], t["symbol"])
                if q is None:
                    return dict(step=k, what="fill without a quote for its symbol on this tick", trade=t)
                px = q["bid"] if t["side"] == "Sell" else q["ask"]
                if t["date"] != q["date"] or not feq_bits(t["value"], f2b(b2f(px) * b2f(t["quantity"]))):
                    return dict(step=k, what="fill not dated/priced from this tick's quote", trade=t, quote=q)
    return None


def jura_expected(e, q):
    """C18's reading for one resting entry and this tick's quote: ('fill', px) | 'mark' | 'expire' |
    ('trigger', tif) | 'rest' | None (outside the property: Alo, unparsable, non-finite)"""
    o = e["order"]
    ot = o["order_type"]
    if not fin(q["bid"]) or not fin(q["ask"]):
        return None
    bid, ask = b2f(q["bid"]), b2f(q["ask"])
    if "Limit" in ot:
        tif = ot["Limit"]["tif"]
        if tif == "Alo":
            return None
        if tif == "Ioc" and e["flag"]:
            return "expire"
        if o["limit_px_parsed"] is None or not fin(o["limit_px_parsed"]):
            return None
        px = b2f(o["limit_px_parsed"])
        if tif == "Ioc":
            ok = (ask <= px * (1.0 + 0.1)) if o["is_buy"] else (bid >= px * (1.0 - 0.1))
            if not ok:
                return "mark"
        else:
            ok = (ask <= px) if o["is_buy"] else (bid >= px)
            if not ok:
                return "rest"
        if o["sz_parsed"] is None:
            return None
        return ("fill", q["ask"] if o["is_buy"] else q["bid"])
    t = ot["Trigger"]
    if not fin(t["trigger_px"]):
        return None
    trig = b2f(t["trigger_px"])
    if t["tpsl"] == "Sl":
        fires = (ask >= trig) if o["is_buy"] else (bid <= trig)
    else:
        fires = (ask <= trig) if o["is_buy"] else (bid >= trig)
    return ("trigger", "Ioc" if t["is_market"] else "Gtc") if fires else "rest"


def oracle_c18(sc, steps):
    if sc["kind"] != "jura":
        return None
    for k, st in enumerate(steps):
        if st["op"]["op"] != "tick" or st["panic"]:
            continue
        pre, post, r = st["pre"], st["post"], st["result"]
        post_by_id = {e["id"]: e for e in post["book"]}
        fills_by_id = {}
        for f in r["fills"]:
            fills_by_id.setdefault(f["oid"], []).append(f)
        exp_children = []
        ok_domain = True
        for e in pre["book"]:
            q = quote_for(st["op"], str(e["order"]["asset"]))
            exp = jura_expected(e, q) if q else "rest"
            if exp is None:
                ok_domain = False
                break
            fl = fills_by_id.get(e["id"], [])
            after = post_by_id.get(e["id"])
            desc = dict(step=k, id=e["id"], order=e["order"], flag=e["flag"], quote=q, expected=exp)
            if isinstance(exp, tuple) and exp[0] == "fill":
                if len(fl) != 1 or after is not None:
                    return dict(desc, what="order should fill on this tick (exactly once) and leave the book", fills=fl)
                f = fl[0]
                if not (feq_bits(f["px"], exp[1]) and f["time"] == q["date"] and f["coin"] == str(e["order"]["asset"])
                        and feq_bits(f["sz"], e["order"]["sz_parsed"]) and f["side"] == ("A" if e["order"]["is_buy"] else "B")):
                    return dict(desc, what="fill does not carry the order's id, asset, size and the quote's price and date", fill=f)
            else:
                if fl:
                    return dict(desc, what="order must not fill on this tick", fills=fl)
                if exp == "rest":
                    if after is None or after["flag"] != e["flag"] or jkey(after["order"]) != jkey(e["order"]):
                        return dict(desc, what="order should keep resting unchanged", after=after)
                elif exp == "mark":
                    if after is None or not after["flag"]:
                        return dict(desc, what="IOC order should be marked as attempted", after=after)
                elif exp == "expire":
                    if after is not None:
                        return dict(desc, what="IOC order should be dropped without a fill", after=after)
                else:
                    if after is not None:
                        return dict(desc, what="fired trigger order should leave the book", after=after)
                    c = dict(e["order"])
                    c["order_type"] = dict(Limit=dict(tif=exp[1]))
                    exp_children.append(c)
        if not ok_domain:
            continue
        trig = r["triggered"]
        if len(trig) != len(exp_children):
            return dict(step=k, what="trigger announcements differ from the trigger orders that should fire",
                        expected=len(exp_children), announced=trig)
        for i, c in zip(trig, exp_children):
            ch = post_by_id.get(i)
            if ch is None or ch["flag"] or jkey(ch["order"]) != jkey(c) or i < pre["next_id"]:
                return dict(step=k, what="trigger child is not a fresh-id limit order with the parent's asset, side, limit and size",
                            child=ch, expected=c)
    return None


def order_size(trs, idx):
    """size_of::<Order>() of the exchange's order type as the harness observed it (it selects the driftsort path);
    1 when a trace does not say (old corpus traces are re-run, so this does not happen in practice)"""
    if os.environ.get("VERIF_SELFTEST_ORDER_SIZE"):       # self-test of the exact-sort comparison only
        return int(os.environ["VERIF_SELFTEST_ORDER_SIZE"])
    for i in idx:
        if isinstance(trs[i], dict) and "order_size" in trs[i]:
            return int(trs[i]["order_size"])
    return 1


ORACLES = dict(C01=oracle_c01, C02=oracle_c02, C03=oracle_c03, C17=oracle_c17, C18=oracle_c18)


# ------------------------------------------------------------------------------------------------
# the check for the exchange-anchored properties

PROJ = {
    # property: (kinds, step filter, aspect mask)
    "C01": (("uist", "jura"), None, A_KIND | A_FILLS | A_ADMITTED | A_TRIGGERED | A_NEXTID | A_INV),
    "C02": (("uist",), "tick", A_KIND | A_FILLS | A_BOOK),
    "C03": (("uist", "jura"), None, A_KIND | A_FILLS | A_ADMITTED | A_TRIGGERED | A_BOOK | A_BUFFER | A_NEXTID | A_INV),
    "C17": (("uist", "jura"), "tick", A_KIND | A_ADMITTED | A_FILLS | A_NEXTID | A_TRIGGERED | A_SORT | A_INV),
    "C18": (("jura",), None, A_KIND | A_FILLS | A_TRIGGERED | A_BOOK | A_LOG | A_ADMITTED),
}
EXCH_FLAGS = ["q_jura_sell_triggers_inverted"]


def gen_suite(prop, tier, rng):
    kinds = PROJ[prop][0]
    n = tier_size(tier, 120, 2500)
    scs = []
    for i in range(n):
        mal = i % 6 == 5
        if "uist" in kinds:
            scs.append(gen_uist_scenario(rng, malformed=mal, weird=(i % 4 == 3)))
        if "jura" in kinds:
            scs.append(gen_jura_scenario(rng, malformed=mal))
    if prop in ("C17", "C03", "C01"):
        sizes = [0, 1, 2, 3, 5, 8, 13, 19, 20, 21, 22, 31, 32, 33, 40, 63, 64, 65]
        if prop != "C17":
            sizes = [2, 21, 33]
        if tier == "thorough" and prop == "C17":
            sizes += [100, 127, 128, 129, 255, 256, 257, 500, 1000, 2047, 2048, 4096, 4097]
        for n_b in sizes:
            arrs = ARRANGEMENTS if (prop == "C17" and n_b <= 70) else ["random", "alt", "buys_then_sells"]
            for a in arrs:
                if "uist" in kinds:
                    scs.append(gen_uist_scenario(rng, batch=uist_batch(rng, n_b, a)))
                if "jura" in kinds and n_b <= 300:
                    scs.append(gen_jura_scenario(rng, batch=jura_batch(rng, n_b, a)))
    return scs


def classify(prop, sc, steps):
    """keys of the distinct non-trivial situations a scenario exercised (for the evidence)"""
    keys = set()
    kind = sc["kind"]
    for st in steps:
        op = st["op"]
        if op["op"] != "tick":
            if op["op"] == "delete":
                hit = any(e["id"] == op["id"] for e in st["pre"]["book"])
                keys.add((kind, "delete", "hit" if hit else "miss"))
            continue
        if st["panic"]:
            keys.add((kind, "tick", "panic"))
            continue
        pre, r = st["pre"], st["result"]
        if prop in ("C17",):
            n = len(r["admitted"])
            pat = "".join("S" if is_sell_order(kind, o) else "B" for o in pre["buffer"])
            shape = ("sorted" if "BS" not in pat else "mixed")
            keys.add((kind, "batch", min(n, 70) if n <= 70 else (n // 100) * 100, shape))
        for e in pre["book"]:
            o = e if kind == "uist" else e["order"]
            key = o["symbol"] if kind == "uist" else str(o["asset"])
            q = quote_for(op, key)
            if kind == "uist":
                rel = "-"
                if q and o["price"] is not None and fin(o["price"]):
                    p = b2f(o["price"])
                    ref = b2f(q["bid"] if o["type"].endswith("Sell") else q["ask"])
                    rel = "<" if ref < p else ("=" if ref == p else ">")
                keys.add((kind, o["type"], "quoted" if q else "gap", rel))
            else:
                ot = o["order_type"]
                tag = ("L" + ot["Limit"]["tif"]) if "Limit" in ot else ("T" + ot["Trigger"]["tpsl"] + ("m" if ot["Trigger"]["is_market"] else "l"))
                exp = jura_expected(e, q) if q else "gap"
                expk = exp[0] if isinstance(exp, tuple) else exp
                keys.add((kind, tag, "buy" if o["is_buy"] else "sell", expk, e["flag"]))
    return keys


def run_property(res, prop, tier, seed, replay, prop_files):
    ob = obligations_or_violation(res, prop_files)
    wd = workdir(prop)
    rng = random.Random(seed)
    kinds, step_filter, amask = PROJ[prop]
    if replay:
        obj = json.load(open(replay))
        scs = [obj["scenario"]]
    else:
        scs = [s for s in load_corpus(prop) if s.get("kind") in kinds and "datasets" not in s] + gen_suite(prop, tier, rng)
    trs = run_harness_sharded("exch", scs, wd)
    terms, steps = [], []
    for sc, tr in zip(scs, trs):
        t, s = (uist_steps if sc["kind"] == "uist" else jura_steps)(sc, tr)
        terms.append(t)
        steps.append(s)
    if prop == "C03" and not replay:
        # "none is lost, duplicated": one backtest driven through more than 11 000 executed orders, read directly on the
        # real code (one reported trade per executed order); the lockstep with the model on it is in the thorough tier
        import server
        res.coverage.update(server.run_long_history(res, prop, wd, seed, 225, 50, lockstep=(tier == "thorough")))
    if prop == "C18":
        # the model takes a constructed order as the code built it, so what each named constructor builds is read
        # directly (always; it is a reading of the property's vocabulary, not a comparison with the model)
        for sc in scs:
            for f in sc.pop("_ctor_failures", [])[:1]:
                res.violation(dict(kind="property-fails-on-implementation", component="exchange", found_in="constructor reading",
                                   failure=f, scenario=dict(kind="jura", ops=[sc["ops"][f["step"]]])), "violation")
                break
            else:
                continue
            break
    for sc in scs:
        sc.pop("_ctor_failures", None)
    u_idx = [i for i, sc in enumerate(scs) if sc["kind"] == "uist"]
    j_idx = [i for i, sc in enumerate(scs) if sc["kind"] == "jura"]
    cache = {}

    def project(mism):
        out = []
        for sc, st, m in mism:
            if step_filter and steps[sc][st]["op"]["op"] != step_filter:
                continue
            if m & amask:
                out.append((sc, st, mask_names(m & amask)))
        return out

    def eval_fn(val):
        val = frozenset(val)
        if val not in cache:
            mism = []
            if u_idx:
                if "u" not in cache:
                    cache["u"] = eval_steps(wd, "u", IMPORTS, [terms[i] for i in u_idx], "ustep_mask_sz %s" % gn(order_size(trs, u_idx)))
                mism += [(u_idx[a], b, m) for a, b, m in cache["u"]]
            if j_idx:
                r = eval_steps(wd, "j", IMPORTS, [terms[i] for i in j_idx], "jstep_mask_sz %s %s" % (g_quirks(val), gn(order_size(trs, j_idx))))
                mism += [(j_idx[a], b, m) for a, b, m in r]
            cache[val] = project(sorted(mism))
        return cache[val]

    def run_witness(sc):
        tr = run_harness("exch", [sc], wd, tag="w")[0]
        return (uist_steps if sc["kind"] == "uist" else jura_steps)(sc, tr)[1]

    def shrink(sc, f):
        # drop operations from the end, then from the front, while the oracle still fails
        orc = ORACLES[prop]
        best, bestf = sc, f
        changed = True
        while changed and len(best["ops"]) > 1:
            changed = False
            for i in range(len(best["ops"]) - 1, -1, -1):
                cand = dict(best, ops=best["ops"][:i] + best["ops"][i + 1:])
                try:
                    ff = orc(cand, run_witness(cand))
                except Exception:
                    ff = None
                if ff:
                    best, bestf, changed = cand, ff, True
                    break
        return best, bestf

    slice_verdict(res, prop, eval_fn=eval_fn, relevant=EXCH_FLAGS, scenarios=scs, traces_steps=steps,
                  oracle=ORACLES[prop], run_witness=run_witness, component="exch",
                  theorem_hint="Props/%s.v (theorems about Model/Exchange.v, Uist.v, Jura.v)" % prop,
                  shrink=shrink)
    keys = set()
    n_steps = 0
    for sc, st in zip(scs, steps):
        keys |= classify(prop, sc, st)
        n_steps += len(st)
    s0 = scs[len(scs) // 2]
    res.coverage.update(
        evaluations=n_steps, distinct_nontrivial=len(keys),
        rule="seeded random operation sequences (insert/delete/tick, all order types, quote gaps, prices on a "
             "half-point grid so limits hit quotes exactly, 1/6 malformed, stale/unknown delete ids, batches "
             "in arrangement classes) run on the real exchanges; every step compared with the model step from "
             "the implementation's own pre-state (projection: %s). distinct_nontrivial counts distinct "
             "(exchange, order kind, quoted?/price relation or expected action, ...) situations that occurred"
             % mask_names(amask),
        samples=[dict(kind=s0["kind"], ops=s0["ops"][:6])],
        traces_validated_against_impl=len(scs), scenarios=len(scs),
        op_mix={k: sum(1 for sc in scs for o in sc["ops"] if o["op"] == k) for k in ("insert", "delete", "tick")},
        situations=sorted("/".join(str(x) for x in k) for k in keys)[:400])
    return ob
